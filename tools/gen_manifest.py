#!/venv/bin/python
"""Regenerate /verif/MANIFEST.json from the table below (kept in one place so it stays valid)."""
import json
import os

ROOT = os.path.dirname(os.path.dirname(os.path.abspath(__file__)))

# property id -> (technique, level text, level note, design ref)
CLAIMED = {
    "C01": (
        "stateful PBT: generated op histories, raw GLPK read-back vs public model view after every step",
        "Exploration: generated histories (whole op table incl. failing ops, copies, merges, solver switches, context "
        "blocks with faults) with the flux-balance invariant evaluated after every step on the raw GLPK problem; finds "
        "desynchronisation defects reachable by composition, cannot show absence.",
        "Trusts swiglpk's glp_get_* read-back and the harness' bookkeeping of explicitly added user constraints/variables.",
        "DESIGN.md section 4 (C01)",
    ),
    "C02": (
        "model-based stateful PBT: generated edit histories vs executable reference of the documented semantics",
        "Exploration: generated edit histories with all documented argument shapes, compared after every step with a "
        "dictionary reference model of the documentation (content, expected ok/raise outcome, unchanged state after a "
        "documented raise) plus a cross-reference audit.",
        "Trusts vfw/refmodel.py as a faithful transcription of the docstrings (choices where they are silent are "
        "commented there and derived from the statement of C02).",
        "DESIGN.md section 4 (C02)",
    ),
    "C05": (
        "PBT against exact rational FVA (2 exact LPs per reaction, side constraints reproduced exactly; sign-pattern enumeration for loopless)",
        "Exploration: generated models x argument combinations; every reported end compared with the exact extreme under "
        "the same objective row and total-flux cap; consequences (min<=max, FBA solution inside, loopless inside plain, "
        "request order, model unchanged) checked.",
        "Trusts vfw/exactlp.py certificates and vfw/oracles.py (side-constraint construction); 1e-6 relative tolerance.",
        "DESIGN.md section 4 (C05)",
    ),
    "C06": (
        "PBT against exact LP on independently knocked-out specs (truth-table evaluator for gene rules); validity predicate for linear MOMA",
        "Exploration: generated models with shared/nested gene rules x deletion analyses x list shapes x methods x "
        "processes; row set, growth and status per row compared with an exact LP of the independently knocked-out "
        "model; MOMA growth checked against the exact range over minimal-distance solutions; essential sets with dead band.",
        "Trusts gprtree.evaluate, exactlp certificates; dead band 1e-5 around essentiality thresholds.",
        "DESIGN.md section 4 (C06)",
    ),
    "C07": (
        "PBT + exhaustive subset/order enumeration against an independent truth-table evaluator",
        "Exploration: generated rule trees x knock-out subsets x orders x API routes x context on/off; bounds, functional "
        "flags, raw GLPK columns and return values compared with the independent evaluator; thorough tier enumerates all "
        "subsets (all orders up to 4 genes) per generated model.",
        "Trusts gprtree.evaluate (and/or over a tree).",
        "DESIGN.md section 4 (C07)",
    ),
    "C08": (
        "PBT (grammar-based rule text generation) + exhaustive small-scope enumeration against truth tables; round-trip and metamorphic relations",
        "Exploration: generated and enumerated and/or trees over identifiers of every supported class, rendered with "
        "generated spellings; parse/eval/genes vs truth table, eight round trips (text, copies, pickles, symbolic) with "
        "equality, soundness of == on variant pairs, remove_genes against the restricted tree.",
        "Trusts gprtree (evaluator, renderer that parenthesises every sub-expression).",
        "DESIGN.md section 4 (C08)",
    ),
    "C09": (
        "PBT against exact LP optima of the documented secondary problems; exhaustive binary enumeration for ROOM",
        "Exploration: generated feasible models x pFBA/linear MOMA/ROOM argument combinations on knock-out states; "
        "returned fluxes checked for feasibility independently, their secondary objective compared with the exact optimum "
        "(LP, or enumeration of all binary vectors for ROOM).",
        "Trusts exactlp certificates and the transcription of the documented formulations in vfw/oracles.py.",
        "DESIGN.md section 4 (C09)",
    ),
    "C10": (
        "round-trip PBT with validator oracle + differential testing against an independent libsbml reader on edited third-party documents",
        "Exploration: generated models with rich identifiers/metadata written and read back through every target/source "
        "variant (validity by validate_sbml_model, snapshot equality, fixed point), and shipped/generated SBML documents "
        "mutated by validity-preserving libsbml edits and compared with the harness' own direct reading.",
        "Trusts libsbml (parser, validator) and the harness' direct reader for fbc-v2; identifiers.org-style annotations only.",
        "DESIGN.md section 4 (C10)",
    ),
    "C11": (
        "round-trip PBT (save/load through every format variant), snapshot equality and fixed-point oracle",
        "Exploration: generated models with rich identifiers/metadata and out-of-default bounds through JSON, YAML, dict "
        "and pickle (string/path/handle, sort, pretty, protocols, non-default configured bounds); loaded model compared on "
        "the statement's field list incl. raw GLPK and optimum; second round trip must be a fixed point.",
        "Trusts the snapshot/diff code; fields outside the statement's list are not compared for the text formats.",
        "DESIGN.md section 4 (C11)",
    ),
    "C13": (
        "PBT over a call table of 33 analyses with generated arguments; before/after snapshot invariance and repeat-call metamorphic relation",
        "Exploration: generated models (incl. infeasible/unbounded/degenerate) x analyses x arguments x call site (inside a "
        "user context with pending changes or outside); full snapshot equality around every call whether it returns or "
        "raises, equality of uniquely defined results of two consecutive calls, restoration after the user context.",
        "Trusts the snapshot/diff code; random (sampling) and vertex-dependent results are not compared between calls.",
        "DESIGN.md section 4 (C13)",
    ),
    "C14": (
        "schedule-controlled PBT: generated process counts, item permutations, per-task delays and chunk sizes; metamorphic comparison with serial/single-item runs and exact oracle",
        "Exploration: the harness owns delays, chunking, item order and process count of cobrapy's process pools "
        "(parent-side wrappers inherited by forked workers) and compares every item's result with the serial run, the "
        "single-item call and the exact LP; realised arrival order is recorded.",
        "Does not own the kernel scheduler: interleavings finer than per-task delays are out of reach.",
        "DESIGN.md section 4 (C14)",
    ),
    "C12": (
        "stateful PBT: copy at a generated point of a history, then edits on either side with other-side snapshot invariance",
        "Exploration: generated models and pre-histories (incl. open contexts), copies by copy()/deepcopy/pickle, "
        "generated edits (incl. in-place edits of nested mutables) on either side; equivalence at copy time and "
        "non-interference afterwards checked on the full observable state incl. raw GLPK.",
        "Trusts the snapshot/diff code; aliasing is only detected through attributes that the snapshot reads.",
        "DESIGN.md section 4 (C12)",
    ),
    "C03": (
        "stateful PBT: generated context blocks (nesting, faults), snapshot-at-enter == snapshot-after-exit oracle",
        "Exploration: generated histories with nested with-model blocks containing documented-reversible operations "
        "and ending normally, by a harness fault or by a raising operation; full observable state (Python view, "
        "cross-references, raw GLPK) compared between entry and exit.",
        "Trusts the snapshot/diff code; list order ignored as the statement allows; rel 1e-9 on coefficients.",
        "DESIGN.md section 4 (C03)",
    ),
    "C04": (
        "PBT against an exact rational LP oracle with verified certificates + harness-computed dual certificate",
        "Exploration: generated small models incl. infeasible/unbounded ones; status, optimum, feasibility, duals "
        "(complementary slackness recomputed by the harness), reduced costs, error values/exceptions and Solution "
        "immutability checked against an exact simplex whose certificates are verified in rational arithmetic.",
        "Trusts vfw/exactlp.py certificate verification (exact arithmetic) and the 1e-6 relative comparison tolerance.",
        "DESIGN.md section 4 (C04)",
    ),
    "C15": (
        "model-based PBT (Hypothesis op sequences vs Python list model) + exhaustive small-scope enumeration",
        "Exploration: generated and exhaustively enumerated operation sequences on DictList, every step audited "
        "against a plain-list reference through the public lookups; finds index/rollback defects for any index sign "
        "or range, cannot show absence beyond the explored sequences.",
        "Trusts Python list semantics as the reference for index arithmetic and the harness' own audit code.",
        "DESIGN.md section 4 (C15)",
    ),
    "C16": (
        "PBT with an independent numpy feasibility oracle computed from the spec; seed-reproducibility and validate() metamorphic relations",
        "Exploration: generated feasible polytopes (forced/fixed fluxes, user constraints) x ACHR/OptGP x entry points x "
        "n/thinning/nproj/seeds/processes; every returned sample checked against S v = 0, bounds and user constraints "
        "recomputed from the spec, frame shape/columns, same-seed reproducibility, validate() on feasible and perturbed rows, "
        "documented refusals as expected outcomes.",
        "Trusts the harness' numpy feasibility computation and the exact dimension computation (exactlp); feasibility is "
        "decided for the samples drawn only.",
        "DESIGN.md section 4 (C16)",
    ),
    "C17": (
        "PBT against an exact removable-cycle LP and sign-pattern enumeration of cycle-free distributions",
        "Exploration: generated networks with constructed internal cycles x starting vectors (None, optimize, pFBA, exact "
        "vertices with cycle flux pushed to a bound); loopless_solution judged by feasibility, objective/boundary "
        "preservation, monotonicity and an exact LP proving that no cycle can be removed; add_loopless judged against "
        "the exact optimum over all cycle-free sign patterns.",
        "Trusts exactlp certificates and the cycle LP formulation in vfw/props/c17.py / vfw/oracles.py; <= 6 internal reactions.",
        "DESIGN.md section 4 (C17)",
    ),
    "C18": (
        "PBT with an independent bound-table reference for the medium setter/getter and exact LP / exhaustive subset enumeration for minimal_medium",
        "Exploration: generated exchange-rich models (both written directions, SBO/compartment/prefix recognition, "
        "distractors) x medium assignments and self-assignments; minimal_medium for all option combinations judged by "
        "exact feasibility verdict, sufficiency through a fresh build, exact minimal total import and exact minimal "
        "component count (subset enumeration), validity and distinctness of alternatives.",
        "Trusts the recomputation of the exchange set from the spec (cases where Model.exchanges disagrees are skipped and counted) and exactlp.",
        "DESIGN.md section 4 (C18)",
    ),
    "C19": (
        "PBT against exact rational flux ranges without objective row (blocked set) and exact re-analysis of the model fastcc returns",
        "Exploration: generated networks with dead ends, detours, isolated cycles, closed boundaries x reaction_list shapes x "
        "open_exchanges x processes; find_blocked_reactions must equal the exact blocked set; fastcc result compared with "
        "the exact complement, per-reaction content, consistency and input invariance.",
        "Trusts exactlp; exchanges are identified independently only for the unambiguous 'e' compartment case.",
        "DESIGN.md section 4 (C19)",
    ),
    "C20": (
        "PBT with an independent recomputation of every summary table from the Solution and the spec (exact rational FVA for fva=float)",
        "Exploration: generated exchange-rich models x solutions (optimize, pfba, exact vertices with noise, None) x fva "
        "variants x rendering options; membership/side/value of every row of model and metabolite summaries, balance and "
        "percentages, FVA scaling and swapping, objective value and non-raising rendering for every object.",
        "Trusts the harness' own table computation and exactlp; objective value observed through the public text rendering.",
        "DESIGN.md section 4 (C20)",
    ),
}

PENDING_REASON = "check not built yet in this round (planned, see DESIGN.md section 4); not claimed until its check is registered"


def main():
    props = [json.loads(l) for l in open(os.path.join(ROOT, "properties.jsonl"))]
    checks, na = [], []
    for p in props:
        pid = p["id"]
        if pid in CLAIMED:
            tech, text, note, ref = CLAIMED[pid]
            checks.append({
                "property_id": pid,
                "quick_cmd": f"./check {pid} quick",
                "thorough_cmd": f"./check {pid} thorough",
                "evidence_file": f"/verif/evidence/{pid}.json",
                "replay_cmd_template": f"./check {pid} --replay {{path}}",
                "engine": "vfw",
                "level_claimed": {"category": "exploration", "text": text, "design_ref": ref},
                "level_note": note,
                "technique": tech,
            })
        else:
            na.append({"property_id": pid, "reason": PENDING_REASON})
    manifest = {
        "version": 1,
        "setup_cmd": "./setup.sh",
        "hooks": {
            "guard": "COBRAPY_VERIF",
            "enable": "no source hooks exist: checks import cobra from /repo/src (the working tree) and observe it through "
                      "public API, swiglpk read-back and parent-side wrappers; the guard variable is reserved and unused",
            "baseline_off_cmd": "./baseline_off.sh",
            "source_commits": [],
            "add_only": True,
        },
        "engines": [{
            "name": "vfw",
            "path": "/verif/vfw",
            "serves_properties": sorted(CLAIMED),
            "kind_free_text": "Hypothesis-driven property-based testing framework: pure-data case generators, explicit oracles "
                              "(reference models, exact rational LP, round trips, metamorphic relations), sharded subprocess "
                              "runner, failure bucketing, replay files, known-findings handling",
        }],
        "checks": checks,
        "notes": "All checks: exit 0 = held, 1 = VIOLATION line(s), 2 = harness error. VERIF_SEED selects the seed. "
                 "KNOWN_FINDINGS.txt lists known:/fixed: findings.",
        "not_applicable": na,
    }
    with open(os.path.join(ROOT, "MANIFEST.json"), "w") as fh:
        json.dump(manifest, fh, indent=1)
    print(f"MANIFEST.json: {len(checks)} checks, {len(na)} not claimed")


if __name__ == "__main__":
    main()
