#!/venv/bin/python
"""Regenerate the table of section 7 of DESIGN.md from KNOWN_FINDINGS.txt (one row per line, in file order)."""
import os, re
ROOT = os.path.dirname(os.path.dirname(os.path.abspath(__file__)))
rows = []
for line in open(os.path.join(ROOT, 'KNOWN_FINDINGS.txt')):
    line = line.strip()
    m = re.match(r'(known|fixed): property=(C\d\d) (?:([0-9a-f]{7,}) )?sig=(\S+) repro=\S+ (?:check=\S+ )?(.*)', line)
    if not m:
        continue
    kind, prop, commit, sig, text = m.groups()
    disp = '**known**' if kind == 'known' else f'fixed {commit}'
    rows.append(f"| {prop} | {sig} | {disp} | {text.replace('|', '/')} |")
p = os.path.join(ROOT, 'DESIGN.md')
s = open(p).read()
head = '| property | signature | disposition | what fails / failed |\n|---|---|---|---|\n'
i = s.index(head) + len(head)
j = i
while s.startswith('| ', j):
    j = s.index('\n', j) + 1
s = s[:i] + "\n".join(rows) + "\n" + s[j:]
open(p, 'w').write(s)
print(len(rows), 'findings rows;', sum('**known**' in r for r in rows), 'known')
