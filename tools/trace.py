#!/venv/bin/python
"""Replay a history case step by step (incl. steps inside blocks), printing outcomes and audit failures (debug aid).
usage: tools/trace.py replay.json [--xref] [--c03] [--known sig,sig]"""
import json, sys
sys.path.insert(0, '/verif')
from vfw.engine import ensure_sut, PropertyViolation
ensure_sut()
from vfw import build, ops, observe
d = json.load(open(sys.argv[1])); case = d['case']
known = ()
if '--known' in sys.argv:
    known = sys.argv[sys.argv.index('--known') + 1].split(',')
build.reset_globals()
m = build.build_model(case['spec'], case['path'])
w = ops.World(m, known=known)
print('objective', case['spec']['objective'], case['spec']['direction'], case['spec']['solver'], 'cons', case['spec'].get('cons'))
print('rxns', [(r.id, r.reaction, r.bounds, r.gene_reaction_rule) for r in m.reactions], 'mets', [x.id for x in m.metabolites], 'groups', [(g.id, sorted(str(x) for x in g.members)) for g in m.groups])
snaps = []
class Stop(Exception): pass
def on_step(w, op, out):
    print('  ' * w.depth(), out, json.dumps({k: v for k, v in op.items() if k != 'ops'})[:260])
    if out.startswith('raised'):
        print('      ', repr(w.last_exception)[:300])
    try:
        if not w.user['opaque']:
            observe.audit_solver(w.model, ops.user_view(w.user, w.model), 'step')
        if '--xref' in sys.argv:
            observe.audit_crossrefs(w.model, 'step')
        if '--c03' in sys.argv:
            if op['op'] == 'enter' and out == 'ok':
                sn = observe.snapshot(w.model); sn['model']['n_contexts'] -= 1; snaps.append(sn)
            if op['op'] == 'exit' and out != 'skipped:no-context' and snaps:
                s0 = snaps.pop(); s1 = observe.snapshot(w.model)
                df = observe.diff(observe.reorder_free(s0), observe.reorder_free(s1), rel=1e-9)
                if df: raise PropertyViolation('c03', str(df))
    except PropertyViolation as v:
        print('   VIOLATION', str(v)[:600]); raise Stop()
w.on_step = on_step
try:
    for op in case['ops']:
        w.apply(op)
except Stop:
    pass
