#!/bin/sh
# Re-run every registered quick check at VERIF_SEED=1 against /repo so that the committed evidence files come from the
# committed machinery; prints one line per check. Usage: tools/regen_evidence.sh [checks...]
cd /verif
CHECKS="${@:-C01 C02 C03 C04 C05 C06 C07 C08 C09 C10 C11 C12 C13 C14 C15 C16 C17 C18 C19 C20}"
for c in $CHECKS; do
  OUT=$(VERIF_SEED=1 ./check $c quick 2>&1); RC=$?
  echo "$c rc=$RC $(echo "$OUT" | grep -E 'tier=' | cut -c1-200)"
done
python3-vt tools/validate.py | grep -v "^valid" ; true
