#!/bin/sh
# usage: SEEDBASE=/tmp/seed2 tools/keep_seed.sh <Cxx> <name> "<detected by text>"
ID=$1; NAME=$2; DET="$3"
tools/confirm_seed.sh $ID $NAME | tail -1 | cut -c1-160
/venv/bin/python - "$NAME" "$DET" <<'PY'
import json, sys
name, det = sys.argv[1:3]
p = f'/verif/seeded/{name}/meta.json'
m = json.load(open(p)); m['detected_by'] = det
m['ran'] = 'tools/try_seed.sh <patch> <checks> (scratch copy of /repo with the patch, VERIF_REPO, ./check Cxx quick)'
json.dump(m, open(p, 'w'), indent=1)
PY
git -C /repo worktree remove --force ${SEEDBASE:-/tmp/seed}/$ID/wt 2>/dev/null; git -C /repo worktree prune
