#!/bin/sh
# Fast run of the repository's suite (xdist) for use after each fix: commit; expected: 497 passed, 3 failed (network tests).
cd /repo && /venv/bin/python -m pytest -q -p no:cacheprovider --timeout=900 -n 12 "$@" 2>&1 | tail -8
