#!/bin/sh
# usage: tools/confirm_seed.sh <id-dir under /tmp/seed> <name under /verif/seeded>
# Confirms in the scratch worktree: patch == worktree diff, suite passes with it, demo fails with / passes without. Then stores it.
SRC=${SEEDBASE:-/tmp/seed}/$1; DST=/verif/seeded/$2
cd $SRC/wt || exit 2
git diff > /tmp/confirm.diff
cmp -s /tmp/confirm.diff $SRC/out/patch.diff || { echo "patch.diff differs from worktree diff"; diff /tmp/confirm.diff $SRC/out/patch.diff | head -5; }
# test_sbml shares temp files between xdist workers and occasionally reports "errors" on any tree: retry those runs
for attempt in 1 2 3; do
  SUITE=$(PYTHONPATH=$SRC/wt/src /venv/bin/python -m pytest -q -p no:cacheprovider --timeout=900 -n 8 --deselect tests/test_io/test_web 2>&1 | tail -1)
  case "$SUITE" in *error*) ;; *) break;; esac
done
echo "suite with change: $SUITE"
(cd $SRC/wt && PYTHONPATH=$SRC/wt/src /venv/bin/python $SRC/out/demo.py > /tmp/demo_mod.log 2>&1); RC1=$?
(cd /tmp && PYTHONPATH=/repo/src /venv/bin/python $SRC/out/demo.py > /tmp/demo_orig.log 2>&1); RC0=$?
echo "demo modified rc=$RC1 ; unmodified rc=$RC0"
mkdir -p $DST && cp $SRC/out/patch.diff $SRC/out/demo.py $DST/
/venv/bin/python - "$SRC" "$DST" "$SUITE" "$RC1" "$RC0" <<'PY'
import json, sys
src, dst, suite, rc1, rc0 = sys.argv[1:6]
meta = json.load(open(src + '/out/meta.json'))
meta['confirmed'] = {'suite_with_change': suite, 'demo_rc_with_change': int(rc1), 'demo_rc_without_change': int(rc0),
                     'how': 'tools/confirm_seed.sh: pytest -n 8 in the scratch worktree with the change; demo.py on both trees'}
json.dump(meta, open(dst + '/meta.json', 'w'), indent=1)
print(json.dumps(meta['confirmed']))
PY
