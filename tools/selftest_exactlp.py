#!/opt/veriftools/pyvenv/bin/python
"""Build-time validation of vfw.exactlp against scipy's HiGHS (tooling venv). Not a registered check."""
import random, sys
sys.path.insert(0, '/verif')
import numpy as np
from scipy.optimize import linprog
from vfw.exactlp import LP
from fractions import Fraction as F

rng = random.Random(int(sys.argv[1]) if len(sys.argv) > 1 else 1)
N = int(sys.argv[2]) if len(sys.argv) > 2 else 3000
pal = [None, 0, 0, 0, 1, -1, 2, -2, 5, -5, 10, -10, 1000, -1000, F(1, 2), F(-3, 2)]
stat = {}
for it in range(N):
    n = rng.randint(1, 8); m = rng.randint(0, 6)
    lp = LP(n); bounds = []
    for j in range(n):
        lo = rng.choice(pal); hi = rng.choice(pal)
        if lo is not None and hi is not None and lo > hi and rng.random() < 0.9:
            lo, hi = hi, lo
        lp.lb[j] = None if lo is None else F(lo); lp.ub[j] = None if hi is None else F(hi)
        bounds.append((None if lo is None else float(lo), None if hi is None else float(hi)))
    Aeq, beq, Aub, bub = [], [], [], []
    for i in range(m):
        coefs = {j: rng.choice([-3, -2, -1, 1, 2, 3]) for j in rng.sample(range(n), rng.randint(1, min(3, n)))}
        kind = rng.choice(["eq", "eq", "eq", "le", "ge", "range"])
        rhs = rng.choice([0, 0, 0, 1, -1, 5])
        row = [coefs.get(j, 0) for j in range(n)]
        if kind == "eq":
            lp.add_row(coefs, rhs, rhs); Aeq.append(row); beq.append(rhs)
        elif kind == "le":
            lp.add_row(coefs, None, rhs); Aub.append(row); bub.append(rhs)
        elif kind == "ge":
            lp.add_row(coefs, rhs, None); Aub.append([-v for v in row]); bub.append(-rhs)
        else:
            lp.add_row(coefs, rhs - 2, rhs + 3); Aub.append(row); bub.append(rhs + 3); Aub.append([-v for v in row]); bub.append(-(rhs - 2))
    c = {j: rng.choice([-2, -1, 1, 1, 3]) for j in rng.sample(range(n), rng.randint(0, min(3, n)))}
    sense = rng.choice(["max", "min"])
    r = lp.solve(c, sense)
    cv = np.array([c.get(j, 0) for j in range(n)], dtype=float) * (-1 if sense == "max" else 1)
    if any(lo is not None and hi is not None and lo > hi for lo, hi in bounds):
        assert r.status == "infeasible", (r, bounds); stat["triv-infeasible"] = stat.get("triv-infeasible", 0) + 1; continue
    h = linprog(cv, A_ub=Aub or None, b_ub=bub or None, A_eq=Aeq or None, b_eq=beq or None, bounds=bounds, method="highs")
    hs = {0: "optimal", 2: "infeasible", 3: "unbounded"}.get(h.status, f"other{h.status}")
    stat[r.status] = stat.get(r.status, 0) + 1
    if hs.startswith("other"):
        continue
    if hs != r.status and {hs, r.status} == {"infeasible", "unbounded"}:
        # HiGHS presolve reports "infeasible" for some infeasible-or-unbounded problems: decide feasibility separately
        h0 = linprog(np.zeros(n), A_ub=Aub or None, b_ub=bub or None, A_eq=Aeq or None, b_eq=beq or None, bounds=bounds, method="highs")
        hs = "unbounded" if h0.status == 0 else "infeasible"
        stat["highs-ambiguous"] = stat.get("highs-ambiguous", 0) + 1
    assert hs == r.status, (it, hs, r, bounds, lp.rows, c, sense)
    if hs == "optimal":
        val = h.fun * (-1 if sense == "max" else 1)
        assert abs(val - float(r.value)) <= 1e-6 * max(1, abs(val)), (it, val, r.value)
print("ok", stat)
