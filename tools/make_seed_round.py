#!/venv/bin/python
"""usage: tools/make_seed_round.py <base dir, e.g. /tmp/seed3> Cxx [Cyy ...]
Prepares one scratch worktree of /repo (detached HEAD), an output directory and a prompt per property for a fresh
sub-agent. The prompt contains only the property text, the working rules and one-sentence descriptions of the earlier
seeded changes for that property (so that the new one differs); nothing from /verif's machinery."""
import glob, json, os, subprocess, sys
ROOT = os.path.dirname(os.path.dirname(os.path.abspath(__file__)))
base, ids = sys.argv[1], sys.argv[2:]
props = {json.loads(l)["id"]: json.loads(l) for l in open(os.path.join(ROOT, "properties.jsonl"))}
T = open(os.path.join(ROOT, "tools", "SEED_PROMPT.txt")).read()
for pid in ids:
    p = props[pid]
    d = os.path.join(base, pid)
    os.makedirs(os.path.join(d, "out"), exist_ok=True)
    if not os.path.isdir(os.path.join(d, "wt")):
        subprocess.check_call(["git", "-C", "/repo", "worktree", "add", "--detach", "-q", os.path.join(d, "wt"), "HEAD"])
    earlier = []
    for m in sorted(glob.glob(os.path.join(ROOT, "seeded", pid + "-*", "meta.json"))):
        mm = json.load(open(m))
        earlier.append(f'- "{mm["summary"]}" (it needed: {mm["needs"]})')
    e = ""
    if earlier:
        e = ("IMPORTANT - make it different from the earlier seeded changes for this property, which were:\n" + "\n".join(earlier) +
             "\nChoose a different function/code location AND a different kind of mistake, and prefer a part of the property statement "
             "(or of its quantifier) that the earlier changes did not touch.\n")
    txt = (T.replace("{ID}", pid).replace("{TITLE}", p["title"]).replace("{STATEMENT}", p["statement"])
            .replace("{QUANT}", p["quantifier"]["text"]).replace("{DIR}", d).replace("{EARLIER}", e))
    open(os.path.join(d, "prompt.txt"), "w").write(txt)
    print(d)
