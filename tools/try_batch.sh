#!/bin/sh
# usage: tools/try_batch.sh <seed base dir> Cxx [Cyy ...]  - tools/try_seed.sh for each, one after the other; logs in <base>/<Cxx>/try.log
B="$1"; shift
for c in "$@"; do tools/try_seed.sh $B/$c/out/patch.diff $c > $B/$c/try.log 2>&1; done
