#!/bin/sh
# usage: tools/all_seeds.sh [seed-dir ...]   (default: every directory under seeded/)
# Regression over the kept seeded changes: each patch is applied to a scratch copy of /repo and the quick tier of the
# check(s) named at the start of its detected_by text is run against it. Prints one line per seeded change.
cd /verif
[ $# -eq 0 ] && set -- $(ls seeded)
for d in "$@"; do
  checks=$(/venv/bin/python -c "
import json,re,sys
m=json.load(open('seeded/$d/meta.json')); t=m.get('detected_by','')
c=re.findall(r'\bC\d\d\b', t.split(':')[0]) or [m['property']]
print(' '.join(dict.fromkeys(c)))")
  if /venv/bin/python -c "
import json,sys
t=json.load(open('seeded/$d/meta.json')).get('detected_by','')
sys.exit(0 if t.startswith(('MISSED','SUPERSEDED')) else 1)"; then echo "$d: documented miss / superseded (see meta.json)"; continue; fi
  out=$(tools/try_seed.sh seeded/$d/patch.diff $checks 2>&1)
  n=$(echo "$out" | grep -c "^VIOLATION")
  if echo "$out" | grep -q "patch does not apply"; then echo "$d: PATCH DOES NOT APPLY";
  elif [ "$n" -gt 0 ]; then echo "$d: caught by $checks ($n violation lines)";
  else echo "$d: MISSED by $checks"; fi
done
