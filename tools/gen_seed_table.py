#!/venv/bin/python
"""Regenerate section 10 of DESIGN.md (seeded changes and which checks catch them) from /verif/seeded/*/meta.json."""
import glob, json, os, re
ROOT = os.path.dirname(os.path.dirname(os.path.abspath(__file__)))
rows = []
for d in sorted(glob.glob(os.path.join(ROOT, 'seeded', '*'))):
    m = json.load(open(os.path.join(d, 'meta.json')))
    rows.append(f"| {os.path.basename(d)} | {m.get('property')} | {m.get('summary','').replace('|','/')[:260]} | {m.get('needs','').replace('|','/')[:220]} | {m.get('detected_by','?').replace('|','/')} |")
sec = '''## 10. Seeded changes (independent sub-agents) and which checks catch them

Each change was written by a fresh sub-agent that saw only the property text and a scratch worktree (nothing from
`/verif`), asked for a realistic change that needs something specific to manifest, and kept only after I confirmed in
the scratch worktree that the repository's suite still passes with it and that its demonstration fails with / passes
without it (`tools/confirm_seed.sh`). Detection was measured with `tools/try_seed.sh` (apply to `/repo`, run the quick
tier, undo). Files: `/verif/seeded/<name>/{patch.diff, demo.py, meta.json}`.

| name | property | change | needs | detected by |
|---|---|---|---|---|
''' + "\n".join(rows) + "\n"
p = os.path.join(ROOT, 'DESIGN.md')
s = open(p).read()
if '## 10. Seeded changes' in s:
    s = s[:s.index('## 10. Seeded changes')]
s = s.rstrip('\n') + '\n\n---------------------------------------------------------------------------------------------\n\n' + sec
s = re.sub(r'(\n-{20,}\n){2,}', r'\1', s)
open(p, 'w').write(s)
print(len(rows), 'seeded changes')
