#!/venv/bin/python
"""Regenerate section 10 of DESIGN.md (seeded changes and which checks catch them) from /verif/seeded/*/meta.json."""
import glob, json, os, re
ROOT = os.path.dirname(os.path.dirname(os.path.abspath(__file__)))
rows = []
for d in sorted(glob.glob(os.path.join(ROOT, 'seeded', '*'))):
    m = json.load(open(os.path.join(d, 'meta.json')))
    rows.append(f"| {os.path.basename(d)} | {m.get('property')} | {m.get('summary','').replace('|','/')[:260]} | {m.get('needs','').replace('|','/')[:220]} | {m.get('detected_by','?').replace('|','/')} |")
sec = '''## 10. Seeded changes (independent sub-agents) and which checks catch them

Each change was written by a fresh sub-agent that saw only the property text and a scratch worktree (nothing from
`/verif`), asked for a realistic change that needs something specific to manifest, and kept only after I confirmed in
the scratch worktree that the repository's suite still passes with it and that its demonstration fails with / passes
without it (`tools/confirm_seed.sh`). Detection was measured with `tools/try_seed.sh` (the patch is applied to a scratch
copy of `/repo/src`, the quick tier runs against it through `VERIF_REPO`; `/repo` is never touched). Files:
`/verif/seeded/<name>/{patch.diff, demo.py, meta.json}`; `tools/all_seeds.sh` re-runs the whole table.

Rounds: round 1 (`-1`, 20 changes), round 2 (`-2`, 20 changes; each prompt named the round-1 change and asked for another
location, another kind of mistake and another clause of the statement), round 3 (`-3`, 20 changes; prompts named both
earlier ones), round 4 (`-4`; prompts named all three; C01 and C05 prompts carried one extra sentence steering away
from objective-only changes / the loopless option, see the rows). First-try detection by the quick tier: round 1 16/20,
round 2 13/20, round 3 14/20 (13 by the property's own check, C01-3 by C03 - see its row), round 4 12/20, round 5
(`-5`) C01-C10 5/10, round 6 (`-6`, C01-C10 only) 6/10 with one documented miss (C04-6: fluxes below the solver
tolerance, see its row and the ASSUMPTIONS of C04); session 3: round 5 for C11-C20 5/10 (C12, C13, C15, C19, C20 directly),
round 6 for C11-C20 6/10 and round 7 for C01-C10 8/10 (C01-7 by C02 - see its row - and C07-7 after strengthening); every
one of these 30 is caught by the committed checks; round 8 for all twenty: 13/20 at the first try, the other seven (C04, C06,
C07, C08, C10, C13, C14) after the generator gained the missing dimension - two of them (C04-8, C07-8) were caught at
once by the check of the property whose state they corrupt (C01, C02); round 9 for all twenty: 10/20 at the first try, the
other ten (C04, C06, C07, C10, C11, C12, C13, C14, C16 and C13's and C14's own earlier rows aside) after the missing
dimension was added - direction chosen before the objective, reference solutions in another order, knock-outs continued
on a copy, compartments without description, a dictionary loaded twice, nested groups, a row left by
fix_objective_as_constraint, single-item blocked searches, numpy's global generator disturbed between runs. The author of C01-6 also reported a defect of the unchanged tree
(Reaction.copy of a reaction outside the model), which was confirmed, fixed (5baf313) and is now generated
(`detached_arith`). Seeded change C07-5 relied on a genuine defect of the unchanged tree (`GPR.eval` given a
string), which was fixed (13ae901) - see its row; the legacy-note dimension added for C10-5 exposed genuine finding
`sbml-subsystem-note-legacy`. Every miss was a *reach* gap of a generator, never an oracle that accepted a wrong
result, and was closed by adding the missing dimension (the "detected by" column says which): repeated items, numpy
scalars, re-added reaction objects, detached bounds, operator-like gene ids, zero coefficients for new metabolites,
optlang Objective objects, interface switches of populated models, rule objects rewritten in place after they were
evaluated, an objective row that binds below the optimum, solver history, LP rows and model lists in different orders, a knock-out
background, identifiers shared across object kinds, the model's own objects as arguments, repeated metabolites in a
reaction string, two different lists for double deletions, identifiers that contain one another, every documented
argument form of `GPR.eval`, alternating single-bound assignments, legacy note keys, constraints named after
reactions, explicitly empty lists, duplicate species references in third-party documents, rules longer than 100
characters, FVA options under schedules, several calls on one parallel sampler object, bystander sampler objects,
one-sided bound caps, trace requirements and a forced objective flux for media, pure calls before knock-outs, shared
metadata containers of object copies, failures that do not repeat. Regression (`tools/all_seeds.sh`, end of session 3, quick tier, seed 1, after all generator changes; C04-C20
re-run): every kept change is caught again except the documented ones; three had dropped out of the quick tier's reach and
were brought back - C13-6 (it had only ever been "caught" through a genuine defect of the unchanged tree that is now listed,
see its row), C14-5 and C07-6 (diluted by the newer dimensions; their shares were raised) - and C13-2 was re-made on the
rewritten `Reaction.copy` (its original no longer applies). Two changes stay undetected by construction
and are documented as such: C03-2 (superseded: the repository fix 3c235ca removed the code path) and C05-2 (masked by
known finding `loopless-fva-inexact`).

| name | property | change | needs | detected by |
|---|---|---|---|---|
''' + "\n".join(rows) + "\n"
p = os.path.join(ROOT, 'DESIGN.md')
s = open(p).read()
if '## 10. Seeded changes' in s:
    s = s[:s.index('## 10. Seeded changes')]
s = s.rstrip('\n') + '\n\n---------------------------------------------------------------------------------------------\n\n' + sec
s = re.sub(r'(\n-{20,}\n){2,}', r'\1', s)
open(p, 'w').write(s)
print(len(rows), 'seeded changes')
