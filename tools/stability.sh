#!/bin/sh
# usage: tools/stability.sh "<seeds>" [checks...]  - run quick tier at several seeds; print one line per run with its exit code
SEEDS="$1"; shift
CHECKS="${@:-C01 C02 C03 C04 C05 C06 C07 C08 C09 C10 C11 C12 C13 C14 C15 C16 C17 C18 C19 C20}"
for s in $SEEDS; do
  for c in $CHECKS; do
    OUT=$(VERIF_SEED=$s ./check $c quick 2>&1); RC=$?
    echo "seed=$s $c rc=$RC $(echo "$OUT" | grep -v '^KNOWN-FINDING' | grep -E 'VIOLATION|HARNESS|NOTE|tier=' | cut -c1-260 | tr '\n' ' ')"
  done
done
