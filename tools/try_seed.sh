#!/bin/sh
# usage: tools/try_seed.sh <patch.diff> <Cxx> [<Cyy> ...]   - apply a seeded change to /repo, run quick checks, undo it.
PATCH="$1"; shift
cd /repo || exit 2
if [ -n "$(git status --porcelain --untracked-files=no)" ]; then echo "/repo not clean"; exit 2; fi
git apply "$PATCH" || { echo "patch does not apply"; exit 2; }
cd /verif
for c in "$@"; do
  VERIF_SEED=${VERIF_SEED:-1} ./check "$c" quick 2>&1 | grep -v "^KNOWN-FINDING" | cut -c1-400
done
git -C /repo checkout -- . 
git -C /verif checkout -- evidence 2>/dev/null
echo "[repo restored: $(git -C /repo status --porcelain --untracked-files=no | wc -l) modified files]"
