#!/bin/sh
# usage: tools/try_seed.sh <patch.diff> <Cxx> [<Cyy> ...]
# Applies a seeded change to a scratch copy of /repo (src + tests/data) and runs the quick checks against it through
# VERIF_REPO, so that /repo itself (which background runs use) is never touched. The copy is removed afterwards.
PATCH="$(readlink -f "$1")"; shift
T=/tmp/seedrun.$$
mkdir -p $T/tests && rsync -a --exclude '__pycache__' /repo/src $T/ && rsync -a /repo/tests/data $T/tests/ || exit 2
( cd $T && patch -s -p1 < "$PATCH" ) || { echo "patch does not apply"; rm -rf $T; exit 2; }
cd /verif
mkdir -p /tmp/seedrun-evidence.$$ && cp evidence/*.json /tmp/seedrun-evidence.$$/ 2>/dev/null
for c in "$@"; do
  VERIF_REPO=$T/src VERIF_SEED=${VERIF_SEED:-1} ./check "$c" quick 2>&1 | grep -v "^KNOWN-FINDING" | cut -c1-400
done
cp /tmp/seedrun-evidence.$$/*.json evidence/ 2>/dev/null; rm -rf /tmp/seedrun-evidence.$$ $T
echo "[scratch copy removed; /repo untouched]"
