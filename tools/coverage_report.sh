#!/bin/sh
# usage: tools/coverage_report.sh <out dir> [checks...]   - development aid, not a registered check.
# Runs the quick tier of the named checks with every shard under coverage.py (line coverage of /repo/src/cobra) and
# prints, per check, the cobra source lines of the property's anchor files that no generated case reached.
# Evidence files are saved and restored: runs under tracing are slower and explore less.
OUT="$1"; shift
CHECKS="${@:-C01 C02 C03 C04 C05 C06 C07 C08 C09 C10 C11 C12 C13 C14 C15 C16 C17 C18 C19 C20}"
cd /verif; mkdir -p "$OUT/ev"; cp evidence/*.json "$OUT/ev/"
for c in $CHECKS; do
  mkdir -p "$OUT/$c"
  VFW_COVERAGE_DIR="$OUT/$c" ./check $c quick 2>&1 | grep -E 'tier=|VIOLATION|HARNESS' | cut -c1-200
  (cd "$OUT/$c" && /venv/bin/python -m coverage combine -q --data-file=.coverage . >/dev/null 2>&1
   /venv/bin/python -m coverage report --data-file=.coverage -m --include='*/src/cobra/*' > report.txt 2>&1)
done
cp "$OUT/ev/"*.json evidence/
