#!/bin/sh
# Offline setup: make sure hypothesis is importable from /venv (it is pre-installed there; install from the
# offline wheelhouse if a fresh restore lacks it). Nothing is built; the checks import cobra from /repo/src.
/venv/bin/python -c "import hypothesis" 2>/dev/null || \
  /venv/bin/pip install --no-index --find-links /opt/veriftools/wheels hypothesis
# optional secondary engine (coverage-guided campaigns of C08/C15 in the thorough tier); skipped gracefully if absent
PYTHONPATH=/verif/.deps /venv/bin/python -c "import atheris" 2>/dev/null || \
  /venv/bin/pip install -q --no-index --find-links /opt/veriftools/wheels --target /verif/.deps atheris >/dev/null 2>&1 || true
/venv/bin/python -c "import hypothesis, sys; sys.path.insert(0, '/repo/src'); import cobra; print('setup ok: hypothesis', hypothesis.__version__, 'cobra', cobra.__version__)"
