"""vfw - property-based verification framework for cobrapy (see /verif/DESIGN.md)."""
