"""Gene-rule trees as pure data, an independent evaluator, truth tables and a text renderer.

Tree  :=  "gene_id"  |  ["and", t1, t2, ...]  |  ["or", t1, t2, ...]      (None = no rule)
"""
from __future__ import annotations

import itertools
from typing import Any, Iterable, List, Optional, Sequence, Set

from hypothesis import strategies as st


def leaves(tree) -> Set[str]:
    if tree is None:
        return set()
    if isinstance(tree, str):
        return {tree}
    out: Set[str] = set()
    for t in tree[1:]:
        out |= leaves(t)
    return out


def evaluate(tree, absent: Iterable[str]) -> bool:
    """Boolean and/or value with the genes in `absent` false and all others true. No rule -> True."""
    absent = set(absent)
    if tree is None:
        return True
    if isinstance(tree, str):
        return tree not in absent
    if tree[0] == "and":
        return all(evaluate(t, absent) for t in tree[1:])
    if tree[0] == "or":
        return any(evaluate(t, absent) for t in tree[1:])
    raise ValueError(tree)


def subsets(genes: Sequence[str]):
    for r in range(len(genes) + 1):
        for ko in itertools.combinations(genes, r):
            yield ko


def table(tree, genes: Optional[Sequence[str]] = None) -> List[bool]:
    genes = sorted(leaves(tree)) if genes is None else list(genes)
    return [evaluate(tree, ko) for ko in subsets(genes)]


def depth(tree) -> int:
    if tree is None or isinstance(tree, str):
        return 0
    return 1 + max(depth(t) for t in tree[1:])


def has_both_ops(tree) -> bool:
    ops = set()

    def walk(t):
        if isinstance(t, list):
            ops.add(t[0])
            for x in t[1:]:
                walk(x)

    walk(tree)
    return ops == {"and", "or"}


def restrict(tree, absent: Set[str]):
    """Tree with the genes in `absent` fixed false, simplified; returns False if the rule becomes unsatisfiable,
    None never (a satisfiable rule keeps at least one gene)."""
    if isinstance(tree, str):
        return False if tree in absent else tree
    kids = [restrict(t, absent) for t in tree[1:]]
    if tree[0] == "and":
        if any(k is False for k in kids):
            return False
        return kids[0] if len(kids) == 1 else ["and", *kids]
    kids = [k for k in kids if k is not False]
    if not kids:
        return False
    return kids[0] if len(kids) == 1 else ["or", *kids]


# ------------------------------------------------------------------------------------------
# rendering to text with spelling choices
# ------------------------------------------------------------------------------------------
SPELL = {"word": ("and", "or"), "upper": ("AND", "OR"), "sym": ("&", "|")}


def render(tree, spelling: str = "word", choices: Optional[List[int]] = None) -> str:
    """Text form. `choices` is a list of small ints consumed node by node: bit0 = redundant parentheses
    around the node, bit1 = extra blanks. Sub-expressions are always parenthesised (so the text does not
    rely on any precedence convention) except that leaves stay bare unless bit0 asks for parentheses."""
    if tree is None:
        return ""
    choices = list(choices or [])

    def nxt():
        return choices.pop(0) if choices else 0

    and_s, or_s = SPELL[spelling]

    def go(t, top):
        c = nxt()
        if isinstance(t, str):
            s = t
            return f"({s})" if c & 1 else s
        sep = f" {and_s if t[0] == 'and' else or_s} "
        if c & 2:
            sep = " " + sep + " "
        body = sep.join(go(k, False) for k in t[1:])
        if top and not (c & 1):
            return body
        s = f"({body})"
        if c & 1 and top:
            return s
        if c & 1:
            return f"({s})"
        return s

    return go(tree, True)


# ------------------------------------------------------------------------------------------
# strategies
# ------------------------------------------------------------------------------------------
def trees(gene_ids: Sequence[str], max_depth: int = 3, max_fan: int = 3):
    leaf = st.sampled_from(list(gene_ids))

    def extend(children):
        return st.tuples(st.sampled_from(["and", "or"]), st.lists(children, min_size=2, max_size=max_fan)).map(
            lambda t: [t[0], *t[1]])

    return st.recursive(leaf, extend, max_leaves=max(2, max_fan ** 2))


def wide_trees(gene_ids: Sequence[str]):
    """Isozyme-list shaped rules, 8-12 groups of 1-3 genes: their text is longer than 100 characters even with short
    identifiers (display helpers shorten strings of that length; since seeded change C11-5)."""
    leaf = st.sampled_from(list(gene_ids))
    group = st.lists(leaf, min_size=1, max_size=3, unique=True)

    def build(t):
        outer, groups = t
        inner = "and" if outer == "or" else "or"
        return [outer, *[(g[0] if len(g) == 1 else [inner, *g]) for g in groups]]

    return st.tuples(st.sampled_from(["or", "or", "and"]), st.lists(group.filter(lambda g: len(g) >= 2), min_size=8, max_size=12)).map(build)


def shared_trees(gene_ids: Sequence[str]):
    """Rules in which one complex (an and/or group of 2-3 genes) occurs under two or three different parents, e.g.
    (x or (a and b)) and (y or (a and b)): equal sub-expressions may end up as one shared node in a rule object that was
    built from another representation (since seeded change C08-8)."""
    leaf = st.sampled_from(list(gene_ids))
    small = st.one_of(leaf, leaf, st.lists(leaf, min_size=2, max_size=2, unique=True).map(lambda g: ["or", *g]))

    def build(t):
        outer, group, sides = t
        inner = "or" if outer == "and" else "and"
        shared = [outer, *group]
        return [outer, *[[inner, side, shared] for side in sides]]

    return st.tuples(st.sampled_from(["and", "and", "or"]), st.lists(leaf, min_size=2, max_size=3, unique=True),
                     st.lists(small, min_size=2, max_size=3)).map(build)


def opt_trees(gene_ids: Sequence[str], p_none: float = 0.3, **kw):
    if not gene_ids:
        return st.none()
    if len(gene_ids) < 2:
        return st.one_of(st.none(), trees(gene_ids, **kw), trees(gene_ids, **kw))
    t = trees(gene_ids, **kw)
    return st.one_of(st.none(), st.none(), st.none(), t, t, t, t, t, t, wide_trees(gene_ids), shared_trees(gene_ids))
