"""Hypothesis strategies producing pure-data ModelSpecs (JSON-able dicts). All constructions, no rejection.

spec = {
  "id": str, "name": str|None,
  "mets":  [{"id", "compartment", "name", "formula", "charge", "notes", "annotation"}],
  "rxns":  [{"id", "mets": {met_id: coef}, "lb", "ub", "gpr": tree|None, "name", "subsystem", "notes", "annotation"}],
  "genes": [{"id", "name", "notes", "annotation"}]      # metadata for genes that occur in rules
  "objective": {rxn_id: coef}, "direction": "max"|"min",
  "groups": [{"id", "name", "kind", "members": [["r"|"m"|"g", id], ...], "notes", "annotation"}],
  "compartments": {abbr: name},
  "solver": "glpk"|"glpk_exact",
  "cons":   [{"name", "coefs": {rxn_id: coef}, "lb", "ub"}]    # user constraints over net fluxes
}
"""
from __future__ import annotations

import string
from typing import Any, Dict, List, Optional, Sequence

from hypothesis import strategies as st

from vfw import gprtree

INF = float("inf")

# ------------------------------------------------------------------------------------------
# identifiers
# ------------------------------------------------------------------------------------------
PLAIN_ALPHA = string.ascii_letters + string.digits + "_"
RICH_CHARS = ".-:/'\"=[]@+,~*#$%^!?;`{}|\\"
NONASCII = "äéßøλж"
PY_KEYWORDS = ["if", "for", "class", "lambda", "None", "True", "import", "in", "is", "not", "def", "pass", "while"]


def plain_ids(prefix: str, n: int) -> List[str]:
    return [f"{prefix}{i}" for i in range(n)]


@st.composite
def rich_id(draw, kind: str = "any"):
    """One identifier from the classes of DESIGN 3.1 (never blank/whitespace; never '(' or ')')."""
    cls = draw(st.sampled_from(["plain"] * 6 + ["digit", "digit", "keyword", "keyword", "punct", "punct", "punct", "punct", "nonascii", "nonascii"] + ["dunder"]))
    base = draw(st.text(alphabet=string.ascii_letters + string.digits + "_", min_size=1, max_size=5))
    if cls == "plain":
        s = "x" + base
    elif cls == "digit":
        s = draw(st.sampled_from("0123456789")) + base
    elif cls == "keyword":
        s = draw(st.sampled_from(PY_KEYWORDS))
    elif cls == "punct":
        ch = draw(st.text(alphabet=RICH_CHARS, min_size=1, max_size=2))
        pos = draw(st.integers(0, len(base)))
        s = base[:pos] + ch + base[pos:]
    elif cls == "nonascii":
        s = base + draw(st.sampled_from(NONASCII))
    else:
        s = base + "__" + str(draw(st.integers(0, 120))) + "__" + draw(st.sampled_from(["", "a"]))
    return s


GENE_PUNCT = ".-:/'\"="


@st.composite
def rich_gene_id(draw):
    """Gene identifiers restricted to the characters the rule parser documents (see C08)."""
    cls = draw(st.sampled_from(["plain", "plain", "digit", "keyword", "punct", "punct"]))
    base = draw(st.text(alphabet=string.ascii_letters + string.digits + "_", min_size=1, max_size=5))
    if cls == "plain":
        return "g" + base
    if cls == "digit":
        return draw(st.sampled_from("0123456789")) + base
    if cls == "keyword":
        return draw(st.sampled_from(PY_KEYWORDS))
    ch = draw(st.text(alphabet=GENE_PUNCT, min_size=1, max_size=2))
    pos = draw(st.integers(0, len(base)))
    return base[:pos] + ch + base[pos:]


def unique_ids(n_strategy, elem, taken=()):
    return st.lists(elem, min_size=0, max_size=8, unique=True)


# ------------------------------------------------------------------------------------------
# numbers
# ------------------------------------------------------------------------------------------
COEFS = [-3, -2, -1, -1, -1, 1, 1, 1, 2, 3]
HALF_COEFS = [-1.5, -0.5, 0.5, 1.5, 2.5]


def coef():
    return st.one_of(st.sampled_from(COEFS), st.sampled_from(COEFS), st.sampled_from(COEFS), st.sampled_from(HALF_COEFS))


LB_GENERAL = [0, 0, 0, -1000, -1000, -10, -5, -1, -100, 1, 2, -INF, -0.5, -2.5]
UB_GENERAL = [1000, 1000, 1000, 10, 5, 1, 100, 0, -1, INF, 0.5, 7.5]
LB_ZERO = [0, 0, 0, -1000, -1000, -10, -5, -1, -100, -2.5]
UB_ZERO = [1000, 1000, 1000, 10, 5, 1, 100, 0, 7.5]
LB_FINITE = [0, 0, 0, -100, -100, -10, -5, -1, 1, 2, -2.5]
UB_FINITE = [100, 100, 100, 10, 5, 1, 0, 7.5, 20]
LB_FINITE0 = [0, 0, 0, -100, -100, -10, -5, -1, -2.5]
UB_FINITE0 = [100, 100, 100, 10, 5, 1, 0, 7.5, 20]

PALETTES = {"general": (LB_GENERAL, UB_GENERAL), "zero": (LB_ZERO, UB_ZERO), "finite": (LB_FINITE, UB_FINITE),
            "finite0": (LB_FINITE0, UB_FINITE0)}


@st.composite
def bounds(draw, palette: str = "general"):
    lbs, ubs = PALETTES[palette]
    lb, ub = draw(st.sampled_from(lbs)), draw(st.sampled_from(ubs))
    if lb > ub:
        lb, ub = ub, lb
    return lb, ub


# ------------------------------------------------------------------------------------------
# metadata
# ------------------------------------------------------------------------------------------
_words = st.text(alphabet=string.ascii_letters + string.digits + " _-", min_size=1, max_size=12).map(str.strip).filter(bool)
# names with inner runs of blanks and with non-ASCII white space inside (no-break space, thin space): no surrounding
# blanks, so inside the quantifier of C10/C11, but altered by any whitespace "normalisation" (since seeded change C10-8)
_spaced = st.sampled_from(["glucose transport  via PTS", "D-Glucose 6\u00a0%", "a\u2009b", "x   y", "alpha\u3000beta", "1  2 3"])
NAMES = st.one_of(st.just(""), _words, _words, _words, _spaced)
FORMULAS = st.sampled_from([None, "", "H2O", "C6H12O6", "CO2", "C2H6O", "NH4", "H", "C10H12N5O13P3"])
CHARGES = st.sampled_from([None, 0, 0, 1, -1, -2, 3, -4])
PROVIDERS = ["kegg.compound", "bigg.metabolite", "chebi", "ec-code", "metanetx.reaction", "uniprot", "ncbigene"]
_ann_val = st.text(alphabet=string.ascii_letters + string.digits + "_.:-", min_size=1, max_size=8)
SBO = st.sampled_from(["SBO:0000627", "SBO:0000628", "SBO:0000632", "SBO:0000176", "SBO:0000247", "SBO:0000243"])


@st.composite
def annotation(draw, allow_sbo=True):
    out: Dict[str, Any] = {}
    for p in draw(st.lists(st.sampled_from(PROVIDERS), max_size=2, unique=True)):
        out[p] = draw(st.one_of(_ann_val, st.lists(_ann_val, min_size=1, max_size=3, unique=True)))
    if allow_sbo and draw(st.booleans()):
        out["sbo"] = draw(SBO)
    return out


_note_key = st.text(alphabet=string.ascii_letters + string.digits + "_ ", min_size=1, max_size=8).map(str.strip).filter(bool)
_note_val = st.text(alphabet=string.ascii_letters + string.digits + "_ .,;-", min_size=1, max_size=12).map(str.strip).filter(bool)
NOTES = st.dictionaries(_note_key, _note_val, max_size=2)


def _meta(draw, rich: bool, allow_sbo=True):
    if not rich:
        return {"name": "", "notes": {}, "annotation": {}}
    return {"name": draw(NAMES), "notes": draw(NOTES), "annotation": draw(annotation(allow_sbo))}


# ------------------------------------------------------------------------------------------
# the model spec
# ------------------------------------------------------------------------------------------
@st.composite
def model_spec(
    draw,
    max_mets: int = 6,
    max_rxns: int = 9,
    max_genes: int = 6,
    min_genes: int = 0,
    min_mets: int = 0,
    min_rxns: int = 0,
    palette: str = "general",
    families: Sequence[str] = ("sparse", "pathway", "pathway", "degenerate"),
    ids: str = "plain",
    rich_meta: bool = False,
    gprs: bool = True,
    groups: bool = False,
    objective: str = "any",  # any | single | nonneg
    solvers: Sequence[str] = ("glpk", "glpk", "glpk", "glpk_exact"),
    directions: Sequence[str] = ("max", "max", "min"),
    user_cons: int = 0,
    halves: bool = True,
    exchange_rich: bool = False,
):
    family = draw(st.sampled_from(list(families)))
    nm = draw(st.integers(max(min_mets, 2 if family == "pathway" else 0), max_mets))
    if ids == "plain":
        met_ids = plain_ids("M", nm)
        gene_ids = plain_ids("g", draw(st.integers(min_genes, max_genes))) if gprs else []
    else:
        met_ids = draw(st.lists(rich_id(), min_size=nm, max_size=nm, unique=True))
        gene_ids = draw(st.lists(rich_gene_id().filter(lambda s: s not in ("and", "or", "AND", "OR") and "__COBRA_" not in s and "__cobra_escape__" not in s), min_size=min_genes, max_size=max_genes, unique=True)) if gprs else []
    comps = ["c", "e"] if (exchange_rich or draw(st.booleans())) else ["c"]
    if rich_meta and draw(st.booleans()):
        comps = comps + [draw(st.sampled_from(["p", "mito", "C_x", "nuc"]))]  # never equal to a model id: compartments and the model share the SBML SId namespace
    mets = []
    for k, mid in enumerate(met_ids):
        comp = "e" if (exchange_rich and k == 0) else draw(st.sampled_from(comps))
        m = {"id": mid, "compartment": comp, "formula": draw(FORMULAS) if rich_meta else None,
             "charge": draw(CHARGES) if rich_meta else None}
        m.update(_meta(draw, rich_meta))
        mets.append(m)

    c_strat = coef() if halves else st.sampled_from(COEFS)
    rxns: List[Dict[str, Any]] = []

    def add_rxn(stoich, lb=None, ub=None, rid=None):
        if lb is None:
            lb, ub = draw(bounds(palette))
        rxns.append({"mets": stoich, "lb": lb, "ub": ub, "_id": rid})

    if family in ("sparse", "degenerate"):
        nr = draw(st.integers(min_rxns, max_rxns))
        for _ in range(nr):
            if nm == 0 or (family == "degenerate" and draw(st.integers(0, 4)) == 0):
                add_rxn({})
                continue
            k = draw(st.integers(1, min(3, nm)))
            chosen = draw(st.lists(st.sampled_from(met_ids), min_size=k, max_size=k, unique=True))
            add_rxn({m: draw(c_strat) for m in chosen})
        if family == "degenerate" and rxns and draw(st.booleans()):
            src = draw(st.sampled_from(rxns))
            add_rxn(dict(src["mets"]), src["lb"], src["ub"])  # duplicate column
    else:  # pathway
        # uptake of M0 (written either way round), chain, sink on the last metabolite
        way = draw(st.sampled_from(["consume", "produce"]))
        cap = draw(st.sampled_from([1, 5, 10, 10, 100, 1000]))
        if way == "consume":  # "M0 <=>"  uptake is negative flux
            add_rxn({met_ids[0]: -1}, -cap, draw(st.sampled_from([0, 1000, 10])))
        else:  # "<=> M0" uptake is positive flux
            add_rxn({met_ids[0]: 1}, draw(st.sampled_from([0, -1000, -10])), cap)
        for i in range(nm - 1):
            a, b = draw(st.sampled_from([1, 1, 1, 2])), draw(st.sampled_from([1, 1, 1, 2, 3]))
            lb, ub = draw(bounds(palette)) if draw(st.integers(0, 3)) == 0 else draw(st.sampled_from([(0, 1000), (-1000, 1000), (0, 100), (-100, 100)]))
            if palette in ("finite", "finite0"):
                lb, ub = max(lb, -100), min(ub, 100)
            add_rxn({met_ids[i]: -a, met_ids[i + 1]: b}, lb, ub)
        add_rxn({met_ids[-1]: -1}, 0, draw(st.sampled_from([1000, 100, 10])) if palette not in ("finite", "finite0") else 100)
        extra = draw(st.integers(0, max(0, max_rxns - len(rxns))))
        for _ in range(extra):
            kind = draw(st.sampled_from(["conv", "conv", "boundary", "sparse"]))
            if kind == "conv" and nm >= 2:
                i, j = draw(st.lists(st.integers(0, nm - 1), min_size=2, max_size=2, unique=True))
                add_rxn({met_ids[i]: -draw(st.sampled_from([1, 1, 2])), met_ids[j]: draw(st.sampled_from([1, 1, 2]))})
            elif kind == "boundary":
                add_rxn({draw(st.sampled_from(met_ids)): draw(st.sampled_from([-1, -1, 1, -2]))})
            else:
                k = draw(st.integers(1, min(3, nm)))
                chosen = draw(st.lists(st.sampled_from(met_ids), min_size=k, max_size=k, unique=True))
                add_rxn({m: draw(c_strat) for m in chosen})
    rxns = rxns[:max_rxns] if len(rxns) > max_rxns else rxns
    nr = len(rxns)
    if ids == "plain":
        rids = plain_ids("R", nr)
    else:
        rids = draw(st.lists(rich_id(), min_size=nr, max_size=nr, unique=True))
    for r, rid in zip(rxns, rids):
        r.pop("_id", None)
        r["id"] = rid
        r["gpr"] = draw(gprtree.opt_trees(gene_ids)) if gene_ids else None
        r["subsystem"] = draw(st.sampled_from(["", "", "Glycolysis", "Transport, extracellular"])) if rich_meta else ""
        r.update(_meta(draw, rich_meta))

    # objective
    objective_d: Dict[str, Any] = {}
    if nr:
        if objective == "single":
            objective_d = {draw(st.sampled_from(rids)): 1}
        else:
            k = draw(st.sampled_from([0, 1, 1, 1, 1, 2, 3])) if objective == "any" else draw(st.sampled_from([1, 1, 2]))
            chosen = draw(st.lists(st.sampled_from(rids), min_size=min(k, nr), max_size=min(k, nr), unique=True))
            cs = [1, 1, 1, 2, 0.5] if objective == "nonneg" else [1, 1, 1, -1, 2, 0.5, -2]
            if family == "pathway" and chosen and draw(st.booleans()):
                chosen[0] = rids[min(nm, nr - 1)]  # the sink reaction of the chain
                chosen = list(dict.fromkeys(chosen))
            objective_d = {rid: draw(st.sampled_from(cs)) for rid in chosen}

    used_genes = sorted(set().union(*[gprtree.leaves(r["gpr"]) for r in rxns]) if rxns else set())
    genes = []
    for gid in used_genes:
        g = {"id": gid}
        g.update(_meta(draw, rich_meta, allow_sbo=False))
        genes.append(g)

    groups_l = []
    if groups and (nr or nm):
        ng = draw(st.integers(0, 3))
        gids = plain_ids("grp", ng) if ids == "plain" else draw(st.lists(rich_id(), min_size=ng, max_size=ng, unique=True))
        pool = [["r", x] for x in rids] + [["m", x] for x in met_ids] + [["g", x] for x in used_genes]
        for gid in gids:
            members = draw(st.lists(st.sampled_from(pool), max_size=4, unique_by=lambda t: (t[0], t[1]))) if pool else []
            g = {"id": gid, "kind": draw(st.sampled_from(["collection", "classification", "partonomy"])), "members": members}
            g.update(_meta(draw, rich_meta, allow_sbo=False))
            groups_l.append(g)

    cons = []
    if user_cons and nr:
        for k in range(draw(st.integers(0, user_cons))):
            chosen = draw(st.lists(st.sampled_from(rids), min_size=1, max_size=min(3, nr), unique=True))
            lo, hi = draw(st.sampled_from([(None, 5), (None, 10), (-5, None), (0, 0), (1, 1), (-10, 10), (None, 0), (2, 8)]))
            cons.append({"name": f"ucon{k}", "coefs": {rid: draw(st.sampled_from([1, 1, -1, 2])) for rid in chosen}, "lb": lo, "ub": hi})

    return {
        "id": draw(st.sampled_from(["m", "model_1", "toy"])) if not rich_meta else draw(st.sampled_from(["m", "model_1", "e_coli"])),
        "name": (draw(NAMES) or None) if rich_meta else None,
        "family": family,
        "mets": mets,
        "rxns": rxns,
        "genes": genes,
        "objective": objective_d,
        "direction": draw(st.sampled_from(list(directions))),
        "groups": groups_l,
        # descriptions for all, some or none of the compartments the metabolites live in (a compartment needs no
        # description to exist; since seeded change C10-9)
        "compartments": {c: draw(st.sampled_from(["", "cytosol", "extracellular space", "periplasm"])) for c in sorted({m["compartment"] for m in mets})
                         if draw(st.integers(0, 3)) > 0} if rich_meta else {},
        "solver": draw(st.sampled_from(list(solvers))),
        "cons": cons,
        "notes": draw(NOTES) if rich_meta else {},
        "annotation": draw(annotation()) if rich_meta else {},
    }


# ------------------------------------------------------------------------------------------
# helpers on specs (pure)
# ------------------------------------------------------------------------------------------
def spec_matrix(spec):
    """(met_ids, rxn_ids, S as {met: {rxn: coef}}, bounds list, objective list)"""
    mids = [m["id"] for m in spec["mets"]]
    rids = [r["id"] for r in spec["rxns"]]
    S = {m: {} for m in mids}
    for r in spec["rxns"]:
        for m, c in r["mets"].items():
            if c != 0:
                S[m][r["id"]] = c
    return mids, rids, S


def spec_size(spec) -> int:
    return len(spec["mets"]) + len(spec["rxns"])


def share_ids(draw, spec):
    """In place: a reaction and/or a metabolite takes the identifier of a gene, and one group lists the namesakes (the
    identifier spaces of the object kinds are separate, so this is a valid model)."""
    if not (spec["genes"] and spec["rxns"] and spec["mets"]):
        return spec
    gid = spec["genes"][draw(st.integers(0, len(spec["genes"]) - 1))]["id"]
    members = [["g", gid]]
    if gid not in {r["id"] for r in spec["rxns"]} and draw(st.booleans()):
        r = spec["rxns"][draw(st.integers(0, len(spec["rxns"]) - 1))]
        old, r["id"] = r["id"], gid
        if old in spec["objective"]:
            spec["objective"][gid] = spec["objective"].pop(old)
        for c in spec.get("cons", []):
            if old in c["coefs"]:
                c["coefs"][gid] = c["coefs"].pop(old)
        for g in spec["groups"]:
            g["members"] = [([k, gid] if (k, x) == ("r", old) else [k, x]) for k, x in g["members"]]
        members.append(["r", gid])
    if gid not in {m["id"] for m in spec["mets"]} and (len(members) == 1 or draw(st.booleans())):
        m = spec["mets"][draw(st.integers(0, len(spec["mets"]) - 1))]
        old, m["id"] = m["id"], gid
        for r in spec["rxns"]:
            if old in r["mets"]:
                r["mets"][gid] = r["mets"].pop(old)
        for g in spec["groups"]:
            g["members"] = [([k, gid] if (k, x) == ("m", old) else [k, x]) for k, x in g["members"]]
        members.append(["m", gid])
    if not spec["groups"]:
        spec["groups"] = [{"id": "shared_ids", "name": "", "kind": "collection", "members": [], "notes": {}, "annotation": {}}]
    have = {tuple(x) for x in spec["groups"][0]["members"]}
    spec["groups"][0]["members"] += [x for x in members if tuple(x) not in have]
    return spec


@st.composite
def with_shared_ids(draw, base):
    """A spec from `base`; in a third of the cases identifiers are shared across object kinds (share_ids)."""
    spec = draw(base)
    if draw(st.sampled_from([False, False, True])):
        share_ids(draw, spec)
    return spec
