"""C10 - SBML export is valid and import(export(model)) is the same model; third-party files are read faithfully."""
from __future__ import annotations

import copy
import glob
import gzip
import io
import math
import os
import tempfile

from hypothesis import strategies as st

from vfw import build, gprtree, observe, specs
from vfw.engine import Phase, PropertyViolation

PROPERTY_ID = "C10"
RULE = (
    "Generator A (round trip): ModelSpecs with rich metadata (<=5 metabolites x <=6 reactions x <=5 genes x <=3 groups; "
    "identifiers of reactions/metabolites/groups from every class incl. leading digits, keywords, punctuation, "
    "non-ASCII and __NN__-like substrings, gene identifiers from the classes the rule parser supports; SId-valid "
    "compartment ids with names; bounds below/above the configured defaults, fixed, infinite; 0-3 objective "
    "coefficients, max/min; nested rules; groups of all three kinds with reaction/metabolite/gene members; plain-text "
    "notes; annotation dicts with string and list values and SBO terms) x target (path, file handle) x source (path, "
    "handle, XML string) x f_replace (default; None/{} with identifiers restricted to valid SIds) x default or "
    "non-default Configuration().bounds. Oracle: validate_sbml_model reports no SBML_FATAL/SBML_ERROR/"
    "SBML_SCHEMA_ERROR/COBRA_FATAL/COBRA_ERROR; snapshot(read(write(m))) == snapshot(m) on the statement's field list "
    "(numbers rel 1e-14, infinities exact), raw GLPK problem and optimum equal; a second round trip is a fixed point. "
    "Generator B (third-party differential): every SBML file shipped in src/cobra/data and tests/data that libsbml "
    "reads without errors, and documents exported from generated specs, each subjected to a generated sequence of "
    "validity-preserving libsbml-level edits (flux-bound parameter values, retargeting a reaction to another "
    "parameter, stoichiometry values, added/removed species references, objective type and coefficients, fbc:strict). "
    "Oracle: the harness' own libsbml read of stoichiometry, bounds and objective == what read_sbml_model produced. "
    "Non-trivial (A): >=1 non-plain id, >=1 non-default bound, a rule of depth >=2 and a group; (B): >=1 effective edit."
)
ASSUMPTIONS = [
    "A single-element annotation list and the bare string are the same annotation (SBML cannot tell them apart); an "
    "empty formula and no formula are the same; list order is not compared.",
    "Notes are plain text: keys without ':' and markup characters, non-empty stripped values.",
    "For a model without reactions the objective direction is not compared (fbc cannot express an objective without a flux objective).",
    "SBML L3V1 requires every reaction to have at least one species reference: reactions without metabolites are not generated.",
    "Subsystem, gene functional flags, solver interface and tolerance are outside the statement's field list.",
    "Third-party differential reads fbc-v2 documents (bounds as parameters); legacy encodings are covered only through "
    "the shipped files that use them and for those the comparison is restricted to what the harness can read directly.",
]
ERR_KEYS = ("SBML_FATAL", "SBML_ERROR", "SBML_SCHEMA_ERROR", "COBRA_FATAL", "COBRA_ERROR")


# ------------------------------------------------------------------------------------------
# part A: round trip
# ------------------------------------------------------------------------------------------
def _valid_sid(s):
    return bool(s) and (s[0].isalpha() or s[0] == "_") and all(c.isalnum() or c == "_" for c in s) and s.isascii()


@st.composite
def cases(draw):
    fr = draw(st.sampled_from(["default", "default", "default", "none", "empty"]))
    spec = draw(specs.model_spec(max_mets=5, max_rxns=6, max_genes=5, families=("sparse", "pathway"), palette="general",
                                 ids="plain" if fr != "default" else "rich", rich_meta=True, groups=True, solvers=("glpk",)))
    # SBML L3V1 cannot express a reaction without species references (core rule 21101): every reaction gets >= 1
    if spec["mets"]:
        for r in spec["rxns"]:
            if not any(c != 0 for c in r["mets"].values()):
                r["mets"] = {spec["mets"][draw(st.integers(0, len(spec["mets"]) - 1))]["id"]: draw(st.sampled_from([-1, 1, 2.5]))}
    else:
        spec["rxns"] = []
        spec["genes"] = []
        spec["objective"] = {}
        for g in spec["groups"]:
            g["members"] = [m for m in g["members"] if m[0] == "m"]
    for r in spec["rxns"]:
        k = draw(st.integers(0, 7))
        if k == 0:
            r["lb"], r["ub"] = 1500, 2000
        elif k == 1:
            r["lb"], r["ub"] = -3000, -1200
        elif k == 2:
            r["lb"], r["ub"] = -2000.5, 0.1
        elif k == 3:
            r["lb"], r["ub"] = -1000, 1000
    # Notes with the keys that the reader interprets in documents without the fbc/groups packages (FORMULA, CHARGE, GENE
    # ASSOCIATION, SUBSYSTEM): in a document written by cobrapy they are ordinary notes and must come back as such, without
    # touching formula, charge, rule, subsystem or groups
    if draw(st.sampled_from([False, False, True])):
        for m in spec["mets"]:
            if draw(st.booleans()):
                m["notes"] = {**m["notes"], **draw(st.sampled_from([{"FORMULA": "C6H13O9P"}, {"CHARGE": "2"}, {"FORMULA": "H2O", "CHARGE": "-1"}]))}
        for r in spec["rxns"]:
            if draw(st.booleans()):
                r["notes"] = {**r["notes"], **draw(st.sampled_from([{"GENE ASSOCIATION": "gx and gy"}, {"GENE_ASSOCIATION": "gz"}, {"SUBSYSTEM": "Glycolysis"},
                                                                    {"SUBSYSTEM": "Transport", "GENE ASSOCIATION": "gx"}]))}
    # Objects of different kinds may share an identifier (the SBML prefixes M_/R_/G_ keep them apart)
    if fr == "default" and draw(st.sampled_from([False, False, True])):
        specs.share_ids(draw, spec)
    return {
        "spec": spec,
        "path": draw(st.sampled_from(build.BUILD_PATHS)),
        "target": draw(st.sampled_from(["path", "handle"])),
        "source": draw(st.sampled_from(["path", "handle", "string"])),
        "f_replace": fr,
        "cfg_bounds": draw(st.sampled_from([None, None, None, (-10, 10), (-100000, 100000), (0, 50)])),
    }


def _v(bucket, msg):
    raise PropertyViolation(bucket, msg)


def _norm_ann(a):
    out = {}
    for k, v in a.items():
        if isinstance(v, list) and len(v) == 1:
            v = v[0]
        out[k] = v
    return out


def content_view(snap):
    s = copy.deepcopy(snap)
    if not s["reactions"]:
        # a document without reactions has nothing that could carry the objective (fbc needs a flux objective)
        s["direction"] = "max"
        s["glpk"]["direction"] = "max"
    s.pop("interface", None)
    s.pop("order", None)
    s["model"].pop("n_contexts", None)
    s["model"].pop("tolerance", None)
    s["model"]["annotation"] = _norm_ann(s["model"]["annotation"])
    if s["model"].get("name") in ("", None):
        s["model"]["name"] = None
    for g in s["genes"].values():
        g.pop("functional", None)
        g["annotation"] = _norm_ann(g["annotation"])
    for r in s["reactions"].values():
        r.pop("subsystem", None)
        r["annotation"] = _norm_ann(r["annotation"])
    for m in s["metabolites"].values():
        m["annotation"] = _norm_ann(m["annotation"])
        if m["formula"] == "":
            m["formula"] = None
    for g in s["groups"].values():
        g["annotation"] = _norm_ann(g["annotation"])
    return s


def compare(a, b, what, bucket, known=frozenset(), ctx=None):
    d = observe.diff(a, b, rel=1e-14, limit=6)
    if d:
        first = d[0].split(":")[0].strip("/").split("/")
        area = first[0]
        if len(first) >= 3 and area in ("reactions", "metabolites", "genes", "groups"):
            area += "-" + first[2].split("[")[0]
        _v(f"{bucket}:{area}", f"{what}: {d[:4]}")


def write_read(model, case, tmp, tag):
    import cobra.io as cio

    kw = {}
    if case["f_replace"] == "none":
        kw["f_replace"] = None
    elif case["f_replace"] == "empty":
        kw["f_replace"] = {}
    p = os.path.join(tmp, f"{tag}.xml")
    if case["target"] == "path":
        cio.write_sbml_model(model, p, **kw)
    else:
        with open(p, "w", encoding="utf-8") as fh:
            cio.write_sbml_model(model, fh, **kw)
    if case["source"] == "path":
        m = cio.read_sbml_model(p, **kw)
    elif case["source"] == "handle":
        with open(p, encoding="utf-8") as fh:
            m = cio.read_sbml_model(fh, **kw)
    else:
        m = cio.read_sbml_model(open(p, encoding="utf-8").read(), **kw)
    return m, p


def spec_patterns(spec):
    """Input patterns of known findings present in this spec (for exclusion by construction)."""
    import re

    pats = set()
    # the escape scheme (non-alphanumerics -> __<ord>__, prefix M_/R_/G_) is not injective: an id is affected when
    # decoding its encoded form does not give the id back (literal __NN__ in the id, or e.g. "_6" followed by an
    # escaped character: M_ + _6 + __248__ reads as M_ + chr(6) + 248__)
    def mangled(prefix, i):
        enc = prefix + re.sub(r"([^0-9_a-zA-Z])", lambda m: f"__{ord(m.group())}__", i)
        dec = re.sub(r"__(\d+)__", lambda m: chr(int(m.group(1))) if int(m.group(1)) < 0x110000 else m.group(0), enc)
        return (dec[len(prefix):] if dec.startswith(prefix) else dec) != i

    if (any(mangled("R_", x["id"]) for x in spec["rxns"]) or any(mangled("M_", x["id"]) for x in spec["mets"])
            or any(mangled("G_", x["id"]) for x in spec["genes"] + spec["groups"])):
        pats.add("sbml-dunder-id")
    if any(m["charge"] is None for m in spec["mets"]):
        pats.add("sbml-charge-none")
    if any(g.get("name", "") == "" for g in spec["genes"]):
        pats.add("sbml-empty-gene-name")
    if not any(v != 0 for v in spec["objective"].values()):
        pats.add("sbml-zero-objective")
    if {g["id"] for g in spec["groups"]} & {g["id"] for g in spec["genes"]}:
        pats.add("sbml-gene-group-id-clash")
    if not spec["groups"] and any("SUBSYSTEM" in r["notes"] for r in spec["rxns"]):
        pats.add("sbml-subsystem-note-legacy")
    return pats


def check_roundtrip(case, ctx):
    import cobra
    import cobra.io as cio

    build.reset_globals()
    spec = case["spec"]
    classes = [f"target-{case['target']}", f"source-{case['source']}", f"f_replace-{case['f_replace']}", f"cfg-{case['cfg_bounds']}"]
    pats = spec_patterns(spec)
    active = pats & set(ctx.known)
    if active:
        for sig in active:
            ctx.excluded_by(sig)
        return {"nontrivial": False, "classes": classes + ["excluded-known-pattern"]}
    if case["cfg_bounds"] is not None:
        cobra.Configuration().bounds = case["cfg_bounds"]
    model = build.build_model(spec, case["path"])
    s0 = observe.snapshot(model)
    with tempfile.TemporaryDirectory(prefix="vfw-c10-") as tmp:
        try:
            m1, p1 = write_read(model, case, tmp, "a")
        except Exception as e:  # noqa: BLE001
            import traceback

            frames = [f for f in traceback.extract_tb(e.__traceback__) if "/cobra/" in f.filename]
            where = f"{os.path.basename(frames[-1].filename)}:{frames[-1].name}" if frames else "?"
            _v(f"roundtrip-raised:{type(e).__name__}:{where}", f"SBML round trip raised {type(e).__name__}: {str(e)[:300]}")
        compare(s0, observe.snapshot(model), "SBML export changed the model", "export-changed-model")
        # validity of the written document
        try:
            _, errors = cio.validate_sbml_model(p1)
        except Exception as e:  # noqa: BLE001
            _v("validate-raised", f"validate_sbml_model raised {type(e).__name__}: {str(e)[:200]}")
        zero_obj = not any(v != 0 for v in spec["objective"].values())
        for k in list(errors):
            # modelling-level remark of cobra's own validation, not a defect of the document
            errors[k] = [e for e in errors[k] if not (zero_obj and "No objective coefficients in model" in e)]
        bad = {k: v for k, v in errors.items() if k in ERR_KEYS and v}
        if bad:
            k = sorted(bad)[0]
            import re

            code = re.search(r"E\d+|\(([\w-]+)\)", bad[k][0])
            _v(f"invalid-document:{k}", f"the written document is rejected: {k}: {bad[k][0][:300]}")
        s1 = observe.snapshot(m1)
        compare(content_view(s0), content_view(s1), "model read back from SBML differs from the written one (written != read)", "not-the-same-model")
        va, vb = model.slim_optimize(), m1.slim_optimize()
        if not observe.num_eq(va, vb, 1e-9):
            _v("optimum-differs", f"optimum {va!r} before, {vb!r} after the SBML round trip")
        try:
            m2, _ = write_read(m1, case, tmp, "b")
        except Exception as e:  # noqa: BLE001
            _v("second-roundtrip-raised", f"second SBML round trip raised {type(e).__name__}: {str(e)[:200]}")
        compare(content_view(s1), content_view(observe.snapshot(m2)), "second SBML round trip changed the model", "not-a-fixed-point")
    ids = [x["id"] for x in spec["rxns"] + spec["mets"] + spec["genes"] + spec["groups"]]
    nonplain = any(not _valid_sid(i) for i in ids)
    nondefault = any((r["lb"], r["ub"]) not in ((0, 1000), (-1000, 1000)) for r in spec["rxns"])
    deep = any(gprtree.depth(r["gpr"]) >= 2 for r in spec["rxns"])
    return {"nontrivial": (nonplain or case["f_replace"] != "default") and nondefault and deep and bool(spec["groups"]), "classes": classes}


# ------------------------------------------------------------------------------------------
# part B: third-party differential
# ------------------------------------------------------------------------------------------
def shipped_files():
    roots = ["/repo/src/cobra/data", "/repo/tests/data"]
    base = os.environ.get("VERIF_REPO")
    if base:
        roots = [os.path.join(os.path.dirname(base.rstrip("/")), "src/cobra/data"), os.path.join(os.path.dirname(base.rstrip("/")), "tests/data")]
    out = []
    for r in roots:
        out += sorted(glob.glob(os.path.join(r, "*.xml")) + glob.glob(os.path.join(r, "*.xml.gz")) + glob.glob(os.path.join(r, "*.sbml")))
    return out


def direct_read(doc):
    """The harness' own reading of an fbc-v2 document: {rid: (stoich {sid: coef}, lb, ub)}, objective {rid: c}, sense."""
    import libsbml

    model = doc.getModel()
    params = {p.getIdAttribute(): p.getValue() for p in model.getListOfParameters()}
    rx = {}
    for r in model.getListOfReactions():
        st_ = {}
        for sr in r.getListOfReactants():
            st_[sr.getSpecies()] = st_.get(sr.getSpecies(), 0.0) - sr.getStoichiometry()
        for sr in r.getListOfProducts():
            st_[sr.getSpecies()] = st_.get(sr.getSpecies(), 0.0) + sr.getStoichiometry()
        fbc = r.getPlugin("fbc")
        lb = ub = None
        if fbc is not None and fbc.isSetLowerFluxBound():
            lb = params.get(fbc.getLowerFluxBound())
        if fbc is not None and fbc.isSetUpperFluxBound():
            ub = params.get(fbc.getUpperFluxBound())
        if fbc is None and r.isSetKineticLaw():
            # legacy encoding: bounds as parameters of the kinetic law
            kl = r.getKineticLaw()
            plb, pub = kl.getParameter("LOWER_BOUND"), kl.getParameter("UPPER_BOUND")
            lb = plb.getValue() if plb is not None else None
            ub = pub.getValue() if pub is not None else None
        rx[r.getIdAttribute()] = ({k: v for k, v in st_.items() if v != 0}, lb, ub)
    mf = model.getPlugin("fbc")
    obj, sense = {}, None
    if mf is not None and mf.getNumFluxBounds():
        # fbc version 1: bounds as a list of (reaction, operation, value)
        v1 = {}
        for fb in mf.getListOfFluxBounds():
            cur = v1.setdefault(fb.getReaction(), [None, None])
            op = fb.getOperation()
            if op in ("greaterEqual", "equal"):
                cur[0] = fb.getValue()
            if op in ("lessEqual", "equal"):
                cur[1] = fb.getValue()
        for rid_, (lo, hi) in v1.items():
            if rid_ in rx:
                rx[rid_] = (rx[rid_][0], lo, hi)
    if mf is None:
        # legacy: objective coefficients as kinetic-law parameters, maximisation implied
        for r in model.getListOfReactions():
            if r.isSetKineticLaw():
                pc = r.getKineticLaw().getParameter("OBJECTIVE_COEFFICIENT")
                if pc is not None and pc.getValue() != 0:
                    obj[r.getIdAttribute()] = pc.getValue()
        if obj:
            sense = "max"
    if mf is not None and mf.getNumObjectives():
        o = mf.getActiveObjective() or mf.getObjective(0)
        sense = "max" if o.getType() == "maximize" else "min"
        for fo in o.getListOfFluxObjectives():
            if fo.getCoefficient() != 0:
                obj[fo.getReaction()] = obj.get(fo.getReaction(), 0.0) + fo.getCoefficient()
    return rx, obj, sense


def compare_direct(doc, cmodel, what):
    from cobra.io.sbml import _f_reaction, _f_specie

    rx, obj, sense = direct_read(doc)
    got = {r.id: r for r in cmodel.reactions}
    want_ids = {_f_reaction(k) for k in rx}
    # cobrapy adds an exchange reaction for every species with boundaryCondition="true" (documented translation of
    # SBML boundary species into the COBRA convention): those extra reactions are not an alteration of the document's
    boundary = {_f_specie(s_.getIdAttribute()) for s_ in doc.getModel().getListOfSpecies() if s_.getBoundaryCondition()}
    extra_ok = {f"EX_{b}" for b in boundary}
    got = {k: v for k, v in got.items() if not (k in extra_ok and k not in want_ids)}
    if set(got) != want_ids:
        _v("third-party:reaction-set", f"{what}: reactions differ: only in file {sorted(want_ids - set(got))[:5]}, only in model {sorted(set(got) - want_ids)[:5]}")
    n = 0
    for sid, (st_, lb, ub) in rx.items():
        r = got[_f_reaction(sid)]
        have = {m.id: c for m, c in r.metabolites.items()}
        want = {_f_specie(k): v for k, v in st_.items()}
        if set(have) != set(want) or any(not observe.num_eq(have[k], want[k], 1e-14) for k in want):
            _v("third-party:stoichiometry", f"{what}: reaction {sid}: document says {want}, read_sbml_model produced {have}")
        if lb is not None and ub is not None:
            if not (observe.num_eq(r.lower_bound, lb, 1e-14) and observe.num_eq(r.upper_bound, ub, 1e-14)):
                _v("third-party:bounds", f"{what}: reaction {sid}: document bounds ({lb}, {ub}), read_sbml_model produced {r.bounds}")
            n += 1
    if sense is not None:
        from cobra.util.solver import linear_reaction_coefficients

        have = {r.id: c for r, c in linear_reaction_coefficients(cmodel).items()}
        want = {_f_reaction(k): v for k, v in obj.items()}
        if set(have) != set(want) or any(not observe.num_eq(have[k], want[k], 1e-14) for k in want):
            _v("third-party:objective", f"{what}: objective in document {want}, read_sbml_model produced {have}")
        if cmodel.objective_direction != sense:
            _v("third-party:direction", f"{what}: objective type {sense} in document, model direction {cmodel.objective_direction}")
    return n


EDITS = ["param_value", "param_value", "retarget", "stoich_value", "add_ref", "add_dup_ref", "remove_ref", "obj_type", "obj_coef", "strict", "reorder"]


@st.composite
def edit_cases(draw):
    src = draw(st.sampled_from(["shipped", "shipped", "generated"]))
    case = {"source": src, "file": draw(st.integers(0, 50)),
            "edits": draw(st.lists(st.tuples(st.sampled_from(EDITS), st.integers(0, 1000), st.integers(0, 1000),
                                             st.sampled_from([0, 1, -1, 2.5, -7.25, 1000, -1000, 12345.678, 1e-3, float("inf"), float("-inf")])),
                                   max_size=6))}
    if src == "generated":
        case["spec"] = draw(specs.model_spec(max_mets=5, max_rxns=6, max_genes=3, families=("sparse", "pathway"), palette="general", ids="plain",
                                             solvers=("glpk",)))
    return case


def apply_edits(doc, edits):
    """Validity-preserving libsbml-level edits. Returns the number of edits that changed something."""
    import libsbml

    model = doc.getModel()
    rxns = list(model.getListOfReactions())
    params = [p for p in model.getListOfParameters()]
    species = [s.getIdAttribute() for s in model.getListOfSpecies()]
    mf = model.getPlugin("fbc")
    n = 0
    if not rxns:
        return 0
    for kind, i, j, val in edits:
        r = rxns[i % len(rxns)]
        fbc = r.getPlugin("fbc")
        if kind == "param_value" and params and fbc is not None and fbc.isSetLowerFluxBound():
            # give this reaction a private parameter with the new value, keeping lb <= ub
            lbp, ubp = model.getParameter(fbc.getLowerFluxBound()), model.getParameter(fbc.getUpperFluxBound())
            if lbp is None or ubp is None or math.isnan(val):
                continue
            which = j % 2
            lo, hi = (val, ubp.getValue()) if which == 0 else (lbp.getValue(), val)
            if lo > hi:
                continue
            pid = f"vfw_p_{n}_{i % len(rxns)}"
            if model.getParameter(pid) is not None:
                continue
            p = model.createParameter()
            p.setId(pid)
            p.setValue(val)
            p.setConstant(True)
            (fbc.setLowerFluxBound if which == 0 else fbc.setUpperFluxBound)(pid)
            n += 1
        elif kind == "retarget" and params and fbc is not None and fbc.isSetLowerFluxBound():
            other = rxns[j % len(rxns)].getPlugin("fbc")
            if other is None or not other.isSetLowerFluxBound():
                continue
            lo, hi = model.getParameter(other.getLowerFluxBound()), model.getParameter(other.getUpperFluxBound())
            if lo is None or hi is None:
                continue
            fbc.setLowerFluxBound(lo.getIdAttribute())
            fbc.setUpperFluxBound(hi.getIdAttribute())
            n += 1
        elif kind == "stoich_value":
            refs = list(r.getListOfReactants()) + list(r.getListOfProducts())
            if not refs or not math.isfinite(val) or val <= 0:
                continue
            refs[j % len(refs)].setStoichiometry(abs(val))
            n += 1
        elif kind == "add_ref" and species:
            sid = species[j % len(species)]
            used = {sr.getSpecies() for sr in list(r.getListOfReactants()) + list(r.getListOfProducts())}
            if sid in used:
                continue
            sr = r.createProduct() if j % 2 else r.createReactant()
            sr.setSpecies(sid)
            sr.setStoichiometry(2.0)
            sr.setConstant(True)
            n += 1
        elif kind == "add_dup_ref":
            # a second reference to a species the reaction already lists (a catalyst written on both sides, "x + x -> d"):
            # valid SBML, the effective stoichiometry is the sum of the references
            reac, prod = list(r.getListOfReactants()), list(r.getListOfProducts())
            refs = reac + prod
            if not refs:
                continue
            old = refs[j % len(refs)]
            same_side = (i + j) % 2 == 0
            on_reactants = (old in reac) == same_side
            sr = r.createReactant() if on_reactants else r.createProduct()
            sr.setSpecies(old.getSpecies())
            sr.setStoichiometry(1.5 if same_side else 2 * abs(old.getStoichiometry()) + 1)  # the net coefficient stays non-zero
            sr.setConstant(True)
            n += 1
        elif kind == "remove_ref":
            if r.getNumReactants() + r.getNumProducts() <= 1:
                continue
            if r.getNumReactants() and j % 2 == 0:
                r.removeReactant(j % r.getNumReactants())
            elif r.getNumProducts():
                r.removeProduct(j % r.getNumProducts())
            else:
                continue
            n += 1
        elif kind == "obj_type" and mf is not None and mf.getNumObjectives():
            o = mf.getActiveObjective() or mf.getObjective(0)
            o.setType("minimize" if o.getType() == "maximize" else "maximize")
            n += 1
        elif kind == "obj_coef" and mf is not None and mf.getNumObjectives() and math.isfinite(val) and val != 0:
            o = mf.getActiveObjective() or mf.getObjective(0)
            fos = list(o.getListOfFluxObjectives())
            if fos and j % 2:
                fos[j % len(fos)].setCoefficient(val)
            else:
                if any(fo.getReaction() == r.getIdAttribute() for fo in fos):
                    continue
                fo = o.createFluxObjective()
                fo.setReaction(r.getIdAttribute())
                fo.setCoefficient(val)
            n += 1
        elif kind == "strict" and mf is not None:
            finite = all(math.isfinite(p.getValue()) for p in model.getListOfParameters())
            mf.setStrict(not mf.getStrict() if finite else False)
            n += 1
    return n


_FILES = None


def check_third_party(case, ctx):
    import libsbml

    import cobra.io as cio

    global _FILES
    build.reset_globals()
    classes = [f"source-{case['source']}"]
    with tempfile.TemporaryDirectory(prefix="vfw-c10b-") as tmp:
        if case["source"] == "shipped":
            if _FILES is None:
                _FILES = shipped_files()
            files = [f for f in _FILES if ctx.params.get("large") or os.path.getsize(f) < 150_000]
            if not files:
                return {"nontrivial": False, "classes": ["no-files"]}
            path = files[case["file"] % len(files)]
            raw = gzip.open(path, "rb").read() if path.endswith(".gz") else open(path, "rb").read()
            text = raw.decode("utf-8", "replace")
            name = os.path.basename(path)
        else:
            m = build.build_model(case["spec"], "bulk")
            p = os.path.join(tmp, "gen.xml")
            cio.write_sbml_model(m, p)
            text = open(p, encoding="utf-8").read()
            name = "generated"
        doc = libsbml.readSBMLFromString(text)
        if doc.getModel() is None or doc.getNumErrors(libsbml.LIBSBML_SEV_ERROR) or doc.getNumErrors(libsbml.LIBSBML_SEV_FATAL):
            return {"nontrivial": False, "classes": classes + ["not-a-valid-file"]}
        fbc_doc = doc.getPlugin("fbc")
        encoding = "legacy" if fbc_doc is None else f"fbc-v{fbc_doc.getPackageVersion()}"
        classes.append(f"encoding-{encoding}")
        edits = case["edits"] if encoding == "fbc-v2" else [e_ for e_ in case["edits"] if e_[0] in ("stoich_value", "add_ref", "add_dup_ref", "remove_ref")]
        n_eff = apply_edits(doc, edits)
        doc.checkInternalConsistency()
        if doc.getNumErrors(libsbml.LIBSBML_SEV_ERROR) or doc.getNumErrors(libsbml.LIBSBML_SEV_FATAL):
            return {"nontrivial": False, "classes": classes + ["edit-made-invalid"]}
        edited = libsbml.writeSBMLToString(doc)
        try:
            cm = cio.read_sbml_model(edited)
        except Exception as e:  # noqa: BLE001
            _v("third-party:read-raised", f"{name} (+{n_eff} edits {[e_[0] for e_ in case['edits']]}): read_sbml_model raised {type(e).__name__}: {str(e)[:200]}")
        doc2 = libsbml.readSBMLFromString(edited)
        compare_direct(doc2, cm, f"{name} (+{n_eff} edits)")
        classes.append(f"file-{name}" if case["source"] == "shipped" else "generated")
        for e_ in case["edits"]:
            classes.append(f"edit-{e_[0]}")
    return {"nontrivial": n_eff >= 1, "classes": classes}


def rt_phase(ctx):
    ctx.run_hypothesis(cases(), check_roundtrip, "roundtrip", ctx.params["max_examples"])


def tp_phase(ctx):
    ctx.run_hypothesis(edit_cases(), check_third_party, "third_party", ctx.params["max_examples"], seed_extra=9)


def phases(tier):
    if tier == "quick":
        return [Phase("roundtrip", rt_phase, shards=6, params={"max_examples": 100, "budget_s": 70, "crash_journal": True, "crash_is_violation": True}),
                Phase("third_party", tp_phase, shards=2, params={"max_examples": 100, "budget_s": 70})]
    return [Phase("roundtrip", rt_phase, shards=12, params={"max_examples": 1500, "budget_s": 520, "crash_journal": True, "crash_is_violation": True}),
            Phase("third_party", tp_phase, shards=4, params={"max_examples": 600, "budget_s": 520, "large": True})]


CHECKS = {"roundtrip": check_roundtrip, "third_party": check_third_party}
