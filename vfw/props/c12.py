"""C12 - a copy is equivalent to its original and shares nothing with it."""
from __future__ import annotations

import copy as _copy
import pickle

from hypothesis import strategies as st

from vfw import build, observe, ops, specs
from vfw.engine import Phase, PropertyViolation

PROPERTY_ID = "C12"
RULE = (
    "Generator: ModelSpec (<=5x6x6 with groups, rich metadata, user constraints, both interfaces) -> 0-8 operations "
    "before the copy (possibly leaving a context with pending changes open) -> copy by Model.copy / copy.deepcopy / "
    "pickle -> 1-25 edits from the whole op table plus in-place edits of notes/annotation/name/compartments/group "
    "membership, each applied to a generated side (original or copy), then closing of the contexts left open on the "
    "original. Also Reaction.copy, Metabolite.copy and reaction arithmetic (+, -, *) on reactions of a model. "
    "Oracle: at copy time snapshots (Python view, raw GLPK, tolerance) and optimum are equal, every "
    "reaction/metabolite/gene/group of the copy is a distinct object whose model is the copy, the copy has no open "
    "context; afterwards after every step on one side the snapshot of the other side is unchanged. Non-trivial: "
    ">=3 effective edits incl. >=1 through a nested mutable (notes/annotation/compartments/group); distinct by hash."
)
ASSUMPTIONS = [
    "Inside contexts only documented-reversible operations are executed.",
    "The copy is compared with the original's *current* state (pending context changes included), as the statement "
    "says 'same content'; closing the original's contexts afterwards must not touch the copy.",
]

NESTED = {"inplace_meta", "group_members", "add_group", "remove_group"}


def case_strategy(max_ops=25):
    weights = {n: 1 for n in ops.OPS}
    weights.update({"inplace_meta": 4, "group_members": 2, "copy": 0})
    names = [n for n in ops.OPS if n != "copy"]
    return st.fixed_dictionaries({
        "spec": specs.with_shared_ids(specs.model_spec(max_mets=5, max_rxns=6, max_genes=6, families=("sparse", "pathway", "degenerate"),
                                                       groups=True, rich_meta=True, user_cons=1)),
        "path": st.sampled_from(build.BUILD_PATHS),
        "pre": st.lists(ops.op_strategy(names + ["enter", "enter"], weights), max_size=8),
        "how": st.sampled_from(["copy", "copy", "deepcopy", "pickle"]),
        "nest": st.sampled_from([0, 0, 0, 1, 2]),
        "edits": st.one_of(st.lists(st.tuples(st.sampled_from(["orig", "copy", "copy"]), ops.op_strategy(names, weights)), min_size=1, max_size=max_ops),
                           st.lists(st.tuples(st.sampled_from(["orig", "copy", "copy"]), ops.op_strategy(names, weights)), min_size=8, max_size=max_ops)),
        "obj_ops": st.lists(st.tuples(st.sampled_from(["rcopy", "mcopy", "gcopy", "add", "sub", "mul", "radd", "sum1", "add0", "mul1"]), st.integers(0, 20), st.integers(0, 20),
                                      st.sampled_from([2, -1, 0.5])), max_size=3),
    })


def _snap(model):
    return observe.snapshot(model)


def _cmp(a, b, what, bucket, rel=0.0, ignore=()):
    d = observe.diff(a, b, rel=rel, limit=5, ignore=ignore)
    if d:
        first = d[0].split(":")[0].strip("/").split("/")
        area = first[0]
        if len(first) >= 3 and area in ("reactions", "metabolites", "genes", "groups"):
            area += "-" + first[2].split("[")[0]
        raise PropertyViolation(f"{bucket}:{area}", f"{what}: {d[:4]}")


def _containers(obj, acc):
    """ids of every dict/list/set reachable from a notes/annotation value"""
    if isinstance(obj, (dict, list, set)):
        acc[id(obj)] = obj
        for v in (obj.values() if isinstance(obj, dict) else obj):
            _containers(v, acc)
    return acc


def _model_containers(model):
    acc = {}
    for x in [*model.reactions, *model.metabolites, *model.genes]:
        _containers(x.notes, acc)
        _containers(x.annotation, acc)
    return acc


def check_object_ops(model, obj_ops):
    """Reaction.copy / Metabolite.copy / reaction arithmetic leave the model untouched and return detached objects."""
    if not len(model.reactions):
        return 0
    n = 0
    for kind, i, j, k in obj_ops:
        before = _snap(model)
        r1 = model.reactions[i % len(model.reactions)]
        r2 = model.reactions[j % len(model.reactions)]
        try:
            if kind == "rcopy":
                res = r1.copy()
            elif kind == "mcopy":
                if not len(model.metabolites):
                    continue
                res = model.metabolites[i % len(model.metabolites)].copy()
            elif kind == "gcopy":
                if not len(model.genes):
                    continue
                res = model.genes[i % len(model.genes)].copy()
            elif kind == "add":
                res = r1 + r2
            elif kind == "radd":
                res = sum([r1, r2])
            elif kind == "sub":
                res = r1 - r2
            elif kind == "sum1":  # lumping a one-step pathway: sum() starts with 0 + r
                res = sum([r1])
            elif kind == "add0":
                res = r1 + 0 if j % 2 else 0 + r1
            elif kind == "mul1":
                res = r1 * 1
            else:
                res = r1 * k
        except Exception as e:  # noqa: BLE001
            raise PropertyViolation(f"object-{kind}:raised", f"{kind} raised {type(e).__name__}: {e}")
        _cmp(before, _snap(model), f"{kind} changed its operands' model", f"object-{kind}:operand-changed")
        # the operands still belong to their model in every respect (back references, model pointers of their
        # metabolites and genes)
        try:
            observe.audit_crossrefs(model, f"object-{kind}")
        except PropertyViolation as v:
            raise PropertyViolation(f"object-{kind}:operand-detached", f"after {kind} the model's cross-references are broken: {v.message}")
        if res.model is not None:
            raise PropertyViolation(f"object-{kind}:attached", f"result of {kind} reports model {res.model!r}")
        # "shares nothing": no notes/annotation container of the result (or of its metabolites and genes) is one of the model's
        mine = _model_containers(model)
        parts = [res] + ([] if kind in ("mcopy", "gcopy") else [*res.metabolites, *res.genes])
        for x in parts:
            for name in ("notes", "annotation"):
                hit = [c for c in _containers(getattr(x, name), {}) if c in mine]
                if hit:
                    raise PropertyViolation(f"object-{kind}:shared-{name}", f"result of {kind}: {name} of {type(x).__name__} {x.id} is (or contains) the very "
                                                                            f"object the model holds: {mine[hit[0]]!r}")
        if kind not in ("mcopy", "gcopy"):
            for m in res.metabolites:
                if m.id in model.metabolites and model.metabolites.get_by_id(m.id) is m:
                    raise PropertyViolation(f"object-{kind}:shared", f"result of {kind} shares metabolite {m.id} with the model")
            for g in res.genes:
                if g.id in model.genes and model.genes.get_by_id(g.id) is g:
                    raise PropertyViolation(f"object-{kind}:shared", f"result of {kind} shares gene {g.id} with the model")
            if res.id in model.reactions and model.reactions.get_by_id(res.id) is res:
                raise PropertyViolation(f"object-{kind}:shared", "result is the model's own reaction")
        n += 1
    return n


def check_case(case, ctx):
    build.reset_globals()
    model = build.build_model(case["spec"], case["path"])
    wa = ops.World(model, user=ops.user_from_spec(model, case["spec"]), known=ctx.known)
    for op in case["pre"]:
        wa.apply(op)
    classes = {f"how-{case['how']}", f"solver-{case['spec']['solver']}"}
    if wa.depth():
        classes.add("~context-open-at-copy")
    if case.get("nest") and len(wa.model.groups) and not wa.depth():
        # a group that contains another group, listed before it (since seeded change C12-9)
        from cobra.core import Group

        child = wa.model.groups[case["nest"] % len(wa.model.groups)]
        if "parent_grp" not in wa.model.groups:
            wa.model.remove_groups([child])
            extra = list(wa.model.reactions[:1])
            wa.model.add_groups([Group("parent_grp", name="nested", members=[child] + extra, kind="partonomy"), child])
            classes.add("~nested-groups")
    n_obj = check_object_ops(wa.model, case["obj_ops"])
    if n_obj:
        classes.add("~object-ops")

    orig = wa.model
    before = _snap(orig)
    try:
        if case["how"] == "copy":
            new = orig.copy()
        elif case["how"] == "deepcopy":
            new = _copy.deepcopy(orig)
        else:
            new = pickle.loads(pickle.dumps(orig))
    except Exception as e:  # noqa: BLE001
        raise PropertyViolation(f"{case['how']}:raised", f"{case['how']} raised {type(e).__name__}: {str(e)[:200]}")
    sa = _snap(orig)
    _cmp(before, sa, f"{case['how']} changed the original", "copying-changed-original")
    sb = _snap(new)
    want = _copy.deepcopy(sa)
    want["model"]["n_contexts"] = 0
    _cmp(want, sb, f"{case['how']} is not equivalent to the original", "not-equivalent", rel=1e-12)
    for name in ("reactions", "metabolites", "genes", "groups"):
        for x in getattr(new, name):
            y = getattr(orig, name).get_by_id(x.id)
            if x is y:
                raise PropertyViolation("shared-object", f"{name[:-1]} {x.id} of the copy is the original's object")
    observe.audit_crossrefs(new, "copy")
    if not wa.user["opaque"]:
        observe.audit_solver(new, ops.user_view(ops.user_remap(wa.user, new, orig), new), "copy")
    va, vb = orig.slim_optimize(), new.slim_optimize()
    if not observe.num_eq(va, vb, 1e-9):
        raise PropertyViolation("optimum-differs", f"optimum of original {va!r} vs copy {vb!r}")

    wb = ops.World(new, user=ops.user_remap(wa.user, new, orig), known=ctx.known)
    if new.problem.__name__.endswith("glpk_exact_interface"):
        wb.exact_copy = True
    sa, sb = _snap(orig), _snap(new)
    n_eff, n_nested = 0, 0
    for side, op in case["edits"]:
        w, other, other_snap = (wa, wb, sb) if side == "orig" else (wb, wa, sa)
        out = w.apply(op)
        if w.retired and w.model is not (orig if side == "orig" else new):
            # merge(inplace=False) hands back a third model: stay on the original pair
            w.model = orig if side == "orig" else new
            w.retired.pop()
        now = _snap(other.model)
        _cmp(other_snap, now, f"{op['op']} ({out}) on the {side} changed the {'copy' if side == 'orig' else 'original'}",
             f"aliasing:{op['op']}")
        if side == "orig":
            sa = _snap(orig)
        else:
            sb = _snap(new)
        classes.add(op["op"])
        if out == "ok":
            n_eff += 1
            if op["op"] in NESTED:
                n_nested += 1
    # close what was left open on the original: the copy must not notice
    while wa.depth():
        out = wa.apply({"op": "exit"})
        _cmp(sb, _snap(new), f"closing a context of the original ({out}) changed the copy", "aliasing:exit")
        classes.add("~closed-original-context")
    while wb.depth():
        wb.apply({"op": "exit"})
        _cmp(_snap(orig), _snap(orig), "noop", "noop")
    for w in (wa, wb):
        for sig, n in w.excluded.items():
            ctx.excluded_by(sig, n)
    return {"nontrivial": n_eff >= 3 and n_nested >= 1, "classes": sorted(classes)}


def hyp_phase(ctx):
    ctx.run_hypothesis(case_strategy(ctx.params["max_ops"]), check_case, "copy", ctx.params["max_examples"])


def phases(tier):
    if tier == "quick":
        return [Phase("hyp", hyp_phase, shards=8, params={"max_examples": 250, "max_ops": 20, "budget_s": 75, "crash_journal": True})]
    return [Phase("hyp", hyp_phase, shards=16, params={"max_examples": 1500, "max_ops": 30, "budget_s": 540, "crash_journal": True})]


CHECKS = {"copy": check_case}
