"""C09 - pFBA, linear MOMA and ROOM solve their documented secondary problems optimally."""
from __future__ import annotations

import math
from fractions import Fraction as F

from hypothesis import strategies as st

from vfw import build, observe, oracles, specs
from vfw.engine import Phase, PropertyViolation
from vfw.props.c04 import check_feasible_vector

PROPERTY_ID = "C09"
RULE = (
    "Generator: feasible ModelSpecs (<=5 metabolites x 2-7 reactions, finite bounds, pathway/sparse families, 1-2 "
    "non-negative objective coefficients, max and min) x method: pFBA (fraction_of_optimum 1 always, 0/0.5/0.9 when "
    "the optimum is >=0 and maximised; objective= None / dict / reaction; reactions= None / subset), linear MOMA and "
    "ROOM (binary and linear, default and generated delta/epsilon) on a knock-out state (0-2 reactions closed after "
    "computing the reference) with the wild-type optimize() or pfba() solution passed explicitly or defaulted. "
    "Oracle: exact LP for T* = min sum|v| under the objective row, D* = min sum|v-w|, relaxed ROOM optimum; exhaustive "
    "enumeration of y in {0,1}^n (n<=7) for binary ROOM; returned fluxes must be feasible (independent check), reach "
    "the exact optimum of the secondary objective, and report it as objective value; model unchanged. Non-trivial: "
    "T* below the total flux of the plain FBA solution, D*>0, or ROOM minimum >=1."
)
ASSUMPTIONS = [
    "Tolerances: 1e-6 relative for LP optima; 1e-4 for ROOM (big-M x integrality tolerance, bounds <= 100).",
    "ROOM band test for counting changed fluxes uses a slack of 1e-6 beyond the documented band.",
    "With solution=None MOMA/ROOM compute their reference by pFBA on the model as it is (i.e. after the knock-out).",
]
TOL = 1e-6


@st.composite
def cases(draw):
    spec = draw(specs.model_spec(max_mets=5, max_rxns=7, min_rxns=2, families=("pathway", "pathway", "sparse"), palette="finite", gprs=False,
                                 objective="nonneg", solvers=("glpk",), directions=("max", "max", "max", "min")))
    n = len(spec["rxns"])
    # construction of the case where the objective row matters below the optimum: the objective reaction may run backwards
    # and another reaction is forced to carry flux, so that the cheapest distribution would push the objective below the
    # required level (also at fraction 0)
    if draw(st.sampled_from([False, False, True])) and n >= 2 and spec["objective"]:
        spec = {**spec, "rxns": [dict(r) for r in spec["rxns"]]}
        by_id = {r["id"]: r for r in spec["rxns"]}
        for rid in spec["objective"]:
            if by_id[rid]["lb"] >= 0:
                by_id[rid]["lb"] = draw(st.sampled_from([-10, -5, -100]))
        others = [r for r in spec["rxns"] if r["id"] not in spec["objective"]]
        if others:
            r = others[draw(st.integers(0, len(others) - 1))]
            if r["ub"] >= 1 and r["lb"] <= 0:
                r["lb"] = 1
            elif r["lb"] <= -1 and r["ub"] >= 0:
                r["ub"] = -1
    return {
        "spec": spec,
        "path": draw(st.sampled_from(build.BUILD_PATHS_LP)),
        "method": draw(st.sampled_from(["pfba", "pfba", "moma", "room", "room_linear"])),
        "fraction": draw(st.sampled_from([1, 1, 0, 0.5, 0.9])),
        "objective_arg": draw(st.sampled_from(["none", "none", "dict", "reaction"])),
        "objective_sel": draw(st.integers(0, max(0, n - 1))),
        "subset": draw(st.one_of(st.none(), st.lists(st.integers(0, max(0, n - 1)), min_size=1, max_size=3, unique=True))),
        "knock": draw(st.lists(st.integers(0, max(0, n - 1)), max_size=2, unique=True)),
        "reference": draw(st.sampled_from(["optimize", "optimize", "pfba", "default", "pfba_reordered", "handmade"])),
        "ref_perm": draw(st.permutations(list(range(9)))),
        "delta": draw(st.sampled_from([0.03, 0.03, 0.1, 0.5])),
        "epsilon": draw(st.sampled_from([1e-3, 1e-3, 0.5, 1])),
    }


def _v(bucket, msg):
    raise PropertyViolation(bucket, msg)


def check_case(case, ctx):
    from cobra.exceptions import OptimizationError
    from cobra.flux_analysis import moma, pfba, room

    build.reset_globals()
    spec = case["spec"]
    model = build.build_model(spec, case["path"])
    rids = [r["id"] for r in spec["rxns"]]
    method = case["method"]
    classes = [f"method-{method}", f"direction-{spec['direction']}"]
    wt, _ = oracles.fba(spec)

    if method == "pfba":
        obj_arg, obj_spec = None, spec["objective"]
        if case["objective_arg"] != "none":
            rid = rids[case["objective_sel"]]
            obj_spec = {rid: 1}
            obj_arg = {model.reactions.get_by_id(rid): 1} if case["objective_arg"] == "dict" else model.reactions.get_by_id(rid)
        spec2 = {**spec, "objective": obj_spec}
        res, _ = oracles.fba(spec2)
        fraction = case["fraction"]
        if fraction != 1 and not (res.status == "optimal" and res.value >= 0 and spec["direction"] == "max"):
            fraction = 1
        classes.append(f"fraction-{fraction}")
        subset = None if case["subset"] is None else [model.reactions.get_by_id(rids[i]) for i in case["subset"]]
        before = observe.snapshot(model)
        raised = None
        try:
            sol = pfba(model, fraction_of_optimum=fraction, objective=obj_arg, reactions=subset)
        except OptimizationError as e:
            raised = e
        except Exception as e:  # noqa: BLE001
            _v("pfba:crash", f"pfba raised {type(e).__name__}: {str(e)[:200]}")
        d = observe.diff(before, observe.snapshot(model), limit=4)
        if d:
            _v("model-changed", f"pfba left the model changed: {d}")
        if res.status != "optimal":
            if raised is None:
                _v("pfba:no-error", f"objective is {res.status} but pfba returned status {sol.status}")
            return {"nontrivial": False, "classes": classes + ["no-optimum"]}
        if raised is not None:
            _v("pfba:raised", f"pfba raised {raised!r} on a model with optimum {res.value}")
        st_, T, bound = oracles.pfba(spec2, fraction)
        if sol.status != "optimal":
            _v("pfba:status", f"status {sol.status}")
        if abs(sol.objective_value - float(T)) > TOL * max(1.0, float(T)):
            _v("pfba:objective-value", f"reported objective value {sol.objective_value!r}, exact minimal total flux {T} (fraction {fraction})")
        if subset is not None:
            if list(sol.fluxes.index) != [r.id for r in subset]:
                _v("pfba:subset-index", f"fluxes index {list(sol.fluxes.index)} for reactions={[r.id for r in subset]}")
            return {"nontrivial": True, "classes": classes + ["subset"]}
        flux = {rid: float(sol.fluxes[rid]) for rid in rids}
        check_feasible_vector(spec2, flux, "pfba")
        cv = sum(c * flux[r] for r, c in obj_spec.items())
        t = TOL * max(1.0, abs(float(bound)))
        if (spec["direction"] == "max" and cv < float(bound) - t) or (spec["direction"] == "min" and cv > float(bound) + t):
            _v("pfba:objective-not-kept", f"original objective {cv!r} is beyond the required level {bound} ({spec['direction']}, fraction {fraction})")
        total = sum(abs(v) for v in flux.values())
        if abs(total - float(T)) > TOL * max(1.0, float(T)):
            _v("pfba:not-parsimonious", f"sum|v| = {total!r}, exact minimum {T}")
        fba_total = sum(abs(float(x)) for x in res.x)
        if fraction != 1:
            flp = oracles.FluxLP(spec2, (), with_abs=True)
            t0 = flp.lp.solve(flp.abs_objective(), "min")
            classes.append("~objective-row-binding-below-optimum" if t0.status == "optimal" and t0.value < T else "~objective-row-slack")
        return {"nontrivial": T < fba_total or T > 0, "classes": classes}

    # ---- MOMA / ROOM on a knock-out state --------------------------------------------------------------
    if wt.status != "optimal":
        return {"nontrivial": False, "classes": classes + ["wt-" + wt.status]}
    if case["reference"] == "pfba":
        ref_sol = pfba(model)
    elif case["reference"] == "pfba_reordered":
        # a reference whose flux Series is not in model order (pfba(reactions=...) keeps the requested order)
        order = [rids[i] for i in case.get("ref_perm", range(len(rids))) if i < len(rids)]
        ref_sol = pfba(model, reactions=[model.reactions.get_by_id(r) for r in order])
        classes.append("reference-not-in-model-order")
    elif case["reference"] == "handmade":
        # a hand-built Solution (e.g. measured fluxes): other order plus an entry for a reaction the model does not have
        import pandas as pd
        from cobra import Solution

        base = model.optimize()
        order = [rids[i] for i in case.get("ref_perm", range(len(rids))) if i < len(rids)]
        fl = pd.Series({**{"not_in_model": 3.5}, **{r: float(base.fluxes[r]) for r in order}})
        ref_sol = Solution(objective_value=base.objective_value, status="optimal", fluxes=fl)
        classes.append("reference-not-in-model-order")
    else:
        ref_sol = model.optimize()
    reference = {rid: float(ref_sol.fluxes[rid]) for rid in rids}
    knocked = [rids[i] for i in case["knock"]]
    for rid in knocked:
        model.reactions.get_by_id(rid).bounds = (0, 0)
    spec_ko = {**spec, "rxns": [({**r, "lb": 0, "ub": 0} if r["id"] in knocked else r) for r in spec["rxns"]]}
    classes.append(f"knocked-{len(knocked)}")
    before = observe.snapshot(model)
    default_ref = case["reference"] == "default"
    if default_ref:
        classes.append("reference-default")
        ko_fba, _ = oracles.fba(spec_ko)
    raised = None
    try:
        if method == "moma":
            sol = moma(model, solution=None if default_ref else ref_sol, linear=True)
        else:
            sol = room(model, solution=None if default_ref else ref_sol, linear=(method == "room_linear"), delta=case["delta"], epsilon=case["epsilon"])
    except OptimizationError as e:
        raised = e
    except Exception as e:  # noqa: BLE001
        _v(f"{method}:crash", f"{method} raised {type(e).__name__}: {str(e)[:200]}")
    d = observe.diff(before, observe.snapshot(model), limit=4)
    if d:
        _v("model-changed", f"{method} left the model changed: {d}")
    if default_ref:
        # reference = pFBA of the model as it is: only feasibility / zero distance can be asserted
        if ko_fba.status != "optimal":
            if raised is None and sol.status == "optimal":
                _v(f"{method}:status", f"knocked-out model is {ko_fba.status} but {method} reports optimal")
            return {"nontrivial": False, "classes": classes}
        if raised is not None:
            _v(f"{method}:raised", f"{method}(solution=None) raised {raised!r} on a feasible model")
        if sol.status != "optimal":
            _v(f"{method}:status", f"{method}(solution=None) status {sol.status} on a feasible model")
        flux = {rid: float(sol.fluxes[rid]) for rid in rids}
        check_feasible_vector(spec_ko, flux, method)
        if method == "moma" and abs(sol.objective_value) > 1e-6 * max(1.0, max(abs(v) for v in flux.values())):
            _v("moma:default-reference-distance", f"distance {sol.objective_value!r} to the model's own pFBA solution should be 0")
        return {"nontrivial": False, "classes": classes}
    if method == "moma":
        st_, D, _ = oracles.linear_moma(spec_ko, reference)
        if st_ != "optimal":
            if raised is None and sol.status == "optimal":
                _v("moma:status", f"knocked-out model is {st_} but MOMA reports optimal")
            return {"nontrivial": True, "classes": classes + ["ko-infeasible"]}
        if raised is not None or sol.status != "optimal":
            _v("moma:status", f"a minimal adjustment exists (distance {D}) but MOMA {'raised ' + repr(raised) if raised else 'status ' + sol.status}")
        flux = {rid: float(sol.fluxes[rid]) for rid in rids}
        check_feasible_vector(spec_ko, flux, "moma")
        dist = sum(abs(flux[r] - reference[r]) for r in rids)
        scale = max(1.0, float(D))
        if abs(dist - float(D)) > 1e-5 * scale:
            _v("moma:not-minimal", f"sum|v-w| = {dist!r}, exact minimum {float(D)!r}")
        if abs(sol.objective_value - float(D)) > 1e-5 * scale:
            _v("moma:objective-value", f"reported objective value {sol.objective_value!r}, exact minimal distance {float(D)!r}")
        return {"nontrivial": D > 0, "classes": classes}
    # ROOM
    delta, eps = case["delta"], case["epsilon"]
    exact_lo = None
    if method == "room_linear":
        ex = oracles.room_linear(spec_ko, reference, 0, 0)
        exact_val = None if ex.status != "optimal" else float(ex.value)
        exact_hi = exact_val
        # The linear formulation has zero-width bands around floating-point reference fluxes. A reference that sits on a
        # bound up to round-off (1.0000000000000002 on a lower bound of 1) makes the exact problem on the float inputs
        # need y = 1 where any solver with a feasibility tolerance needs y = 0. A correct answer lies between the exact
        # optimum with bands widened by the solver's feasibility tolerance and the exact optimum itself.
        scale = max([1.0] + [abs(v) for v in reference.values()])
        ex_lo = oracles._room(spec_ko, reference, 0, 0, (), binary=None, slack=1e-7 * scale)
        exact_lo = None if ex_lo.status != "optimal" else float(ex_lo.value)
    else:
        scale = max([1.0] + [abs(v) for v in reference.values()])
        st_, k = oracles.room_binary(spec_ko, reference, delta, eps, slack=1e-7 * scale)  # bands a hair wider: lower bound
        st2, k2 = oracles.room_binary(spec_ko, reference, delta, eps, slack=-1e-7 * scale)  # a hair narrower: upper bound
        exact_val = None if st_ != "optimal" else float(k)
        exact_hi = exact_val if st2 != "optimal" else float(k2)
    if exact_val is None:
        if raised is None and sol.status == "optimal":
            _v("room:status", "the ROOM problem is infeasible but status is optimal")
        return {"nontrivial": True, "classes": classes + ["ko-infeasible"]}
    if raised is not None or sol.status != "optimal":
        _v("room:status", f"the ROOM problem has optimum {exact_val} but ROOM {'raised ' + repr(raised) if raised else 'status ' + sol.status}")
    flux = {rid: float(sol.fluxes[rid]) for rid in rids}
    check_feasible_vector(spec_ko, flux, "room", tol=1e-5)
    undetermined = 0
    if method == "room" and exact_hi is not None and exact_hi != exact_val:
        # a flux sits on a band edge within round-off: any count between the two bounds is a correct answer
        undetermined = 1
        if exact_val - 1e-4 <= sol.objective_value <= exact_hi + 1e-4:
            return {"nontrivial": False, "classes": classes + ["room-band-edge"], "undetermined": 1}
    # A reference flux that misses a bound of its reaction by round-off (1.0000000000000002 with an upper bound of 1) puts a
    # coefficient of the order 1e-16 into a ROOM row: the LP handed to the solver is then ill-conditioned and GLPK may
    # stop at a vertex that is not optimal (seen: 0.17 instead of 4e-17). The statement cannot be decided by comparing
    # with the exact optimum there; feasibility and the lower side are still checked.
    bounds_ko = {r["id"]: (r["lb"], r["ub"]) for r in spec_ko["rxns"]}
    d_, e_ = (0, 0) if method == "room_linear" else (delta, eps)
    illcond = False
    for rid in rids:
        w = reference[rid]
        for coef in (bounds_ko[rid][1] - (w + d_ * abs(w) + e_), bounds_ko[rid][0] - (w - d_ * abs(w) - e_)):
            if 0 < abs(coef) < 1e-9 * max(1.0, abs(w)):
                illcond = True
    if illcond:
        lo = exact_lo if exact_lo is not None else exact_val
        if sol.objective_value < lo - 1e-4 * max(1.0, lo):
            _v("room:below-minimum", f"{method}: reported objective {sol.objective_value!r} is below the exact minimum {lo} of the relaxed bands")
        return {"nontrivial": False, "classes": classes + ["room-reference-off-bound-by-roundoff"], "undetermined": 1}
    if method == "room_linear" and exact_lo is not None and exact_val - exact_lo > 1e-4 * max(1.0, exact_val):
        if exact_lo - 1e-4 <= sol.objective_value <= exact_val + 1e-4:
            return {"nontrivial": False, "classes": classes + ["room-linear-reference-on-bound-roundoff"], "undetermined": 1}
    if abs(sol.objective_value - exact_val) > 1e-4 * max(1.0, exact_val):
        _v("room:not-minimal", f"{method}: reported objective {sol.objective_value!r}, exact minimum of the documented formulation {exact_val} "
                               f"(delta={delta}, epsilon={eps}, knocked {knocked})")
    if method == "room":
        outside = 0
        for rid in rids:
            w = reference[rid]
            if not (w - delta * abs(w) - eps - 1e-6 <= flux[rid] <= w + delta * abs(w) + eps + 1e-6):
                outside += 1
        if outside > round(sol.objective_value) + 0:
            _v("room:count", f"{outside} fluxes leave the band but the reported count is {sol.objective_value!r}")
    return {"nontrivial": exact_val >= 1 - 1e-9 or (method == "room_linear" and exact_val > 0), "classes": classes}


def hyp_phase(ctx):
    ctx.run_hypothesis(cases(), check_case, "secondary", ctx.params["max_examples"])


def phases(tier):
    if tier == "quick":
        return [Phase("hyp", hyp_phase, shards=8, params={"max_examples": 200, "budget_s": 70})]
    return [Phase("hyp", hyp_phase, shards=16, params={"max_examples": 1500, "budget_s": 520})]


CHECKS = {"secondary": check_case}
