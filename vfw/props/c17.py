"""C17 - loopless methods remove cycles without changing what matters."""
from __future__ import annotations

import itertools
from fractions import Fraction as F

from hypothesis import strategies as st

from vfw import build, oracles, specs
from vfw.engine import HarnessError, Phase, PropertyViolation
from vfw.exactlp import LP, frac
from vfw.props.c04 import check_feasible_vector

PROPERTY_ID = "C17"
RULE = (
    "Generator: feasible pathway-family ModelSpecs (uptake, chain, sink, random extras; 2-7 metabolites) to which 1-3 "
    "internal cycles are added by construction (a single reaction closing a path of the chain, a ring of 2-4 new "
    "reactions over existing metabolites, a ring attached at one metabolite or detached from the network; reactions "
    "written along or against the ring direction; reversible, irreversible or palette bounds; a few unbalanced "
    "'gain' rings), <=5 internal reactions (quick) / <=6 (thorough), all bounds finite and clipped to a generated "
    "magnitude cap in {100,20,10,5,2,1} (the cap is add_loopless' big-M; in half of the models the lower or the upper bounds get a cap 5-10x smaller, so that the largest bound is one-sided), 1 in 4 specs with forced (lb>0) internal "
    "bounds, objective from the spec / on a cycle reaction / mixed, direction max and min, glpk. Two modes. "
    "(a) loopless_solution with fluxes = None, an optimize() solution, a pFBA solution (each optionally after an "
    "earlier optimisation of another objective on the same model, so that the solver warm-starts from a basis with "
    "cycle flux), or an exact optimal vertex maximising a generated +-1 functional of the internal fluxes under the "
    "fixed objective (dict or Series). "
    "Oracle: status optimal; independent steady-state/bounds check; c.v' equals the objective of the starting vector "
    "(the exact optimum for None) and equals the reported objective_value; every boundary flux equal to the starting "
    "one; no internal flux reversed or grown; exact LP 'largest conformal cycle w with S_int w = 0, c.w = 0, "
    "0 <= sigma_i w_i <= |v'_i|, v'-w in bounds' has optimum 0. (b) add_loopless then optimize() under the spec "
    "objective and 0-2 further generated objectives. Oracle: exact loopless optimum by enumeration of all internal "
    "sign patterns without conformal cycle (exact LP per maximal pattern); status optimal iff such an optimum "
    "exists, objective_value equal to it (1e-4), fluxes feasible and containing no conformal internal cycle. "
    "Non-trivial: (a) the starting vector contains a cycle the oracle can remove; (b) the bounds admit a "
    "distribution with an internal cycle."
)
ASSUMPTIONS = [
    "Starting vectors passed to loopless_solution are optimal flux distributions of the very same model (the docstring "
    "requires 'the optimum has remained the same'); non-optimal starting vectors are not generated.",
    "All bounds are finite and <= 100 in magnitude (add_loopless uses the largest bound as big-M); no reaction without "
    "metabolites is generated.",
    "Tolerances: 1e-6*max(1,|x|) for LP results of loopless_solution, removable cycle flux <= 1e-6*max(1,max|v|)*n_int; "
    "1e-4 for everything computed from the MILP of add_loopless.",
    "With fluxes=None the starting vector is internal to loopless_solution: only optimality, feasibility and the "
    "no-removable-cycle condition are asserted, not the relations to the starting vector.",
]
TOL = 1e-6
MTOL = 1e-4
SIG_MIN = "loopless-solution-min-objective"
SIG_DG = "add-loopless-delta-g-range"


def _v(bucket, msg):
    raise PropertyViolation(bucket, msg)


# ------------------------------------------------------------------------------------------
# generator
# ------------------------------------------------------------------------------------------
def _is_boundary(r):
    return len([c for c in r["mets"].values() if c != 0]) == 1


def _rxn(rid, mets, lb, ub):
    return {"id": rid, "mets": mets, "lb": lb, "ub": ub, "gpr": None, "name": "", "subsystem": "", "notes": {}, "annotation": {}}


def _met(mid):
    return {"id": mid, "compartment": "c", "formula": None, "charge": None, "name": "", "notes": {}, "annotation": {}}


@st.composite
def cyclic_spec(draw, max_int):
    pal = draw(st.sampled_from(["finite0", "finite0", "finite0", "finite"]))
    mm = draw(st.sampled_from([2, 2, 3, 3, 4]))
    spec = draw(specs.model_spec(max_mets=mm, min_mets=2, max_rxns=mm + 3, min_rxns=2, families=("pathway",), palette=pal, gprs=False,
                                 objective="any", solvers=("glpk",), directions=("max", "max", "min"), halves=False))
    cap = draw(st.sampled_from([100, 100, 100, 100, 20, 10, 5, 2, 1]))
    # about half of the models have different magnitude caps for lower and upper bounds, so that the largest bound of the model
    # (add_loopless' big-M) may be a lower bound only, or an upper bound only (since seeded change C17-5)
    cap_lo, cap_hi = draw(st.sampled_from([(1, 1), (1, 1), (1, 1), (1, 1), (1, 5), (5, 1), (1, 10), (10, 1)]))
    cap_lo, cap_hi = max(1, cap // cap_lo), max(1, cap // cap_hi)
    nm = len(spec["mets"])
    rxns = spec["rxns"]
    for r in rxns:
        r["lb"], r["ub"] = max(r["lb"], -cap_lo), min(r["ub"], cap_hi)
        if r["lb"] > r["ub"]:
            r["lb"] = r["ub"]
    # leave room for 1-4 cycle reactions: drop surplus extras (never the uptake / chain / sink)
    room = draw(st.integers(1, 4))
    while sum(not _is_boundary(r) for r in rxns) > max_int - room:
        k = max((i for i, r in enumerate(rxns) if i > nm and not _is_boundary(r)), default=None)
        if k is None:
            break
        del rxns[k]
    met_ids = [m["id"] for m in spec["mets"]]
    budget = max_int - sum(not _is_boundary(r) for r in rxns)
    cyc_ids = []
    kinds = []
    for _ in range(draw(st.sampled_from([1, 1, 2, 3]))):
        if budget <= 0:
            break
        kind = draw(st.sampled_from(["close", "close", "ring", "ring", "attached", "detached"]))
        if budget < 2:
            kind = "close"
        if kind == "close":
            i, j = draw(st.lists(st.integers(0, len(met_ids) - 1), min_size=2, max_size=2, unique=True))
            if draw(st.sampled_from([True, True, True, False])):
                i, j = max(i, j), min(i, j)  # back along the chain: closes a directed cycle with the chain reactions
            edges = [(met_ids[i], met_ids[j])]
        else:
            k = draw(st.integers(2, min(4, budget)))
            if kind == "ring" and len(met_ids) < k:
                kind = "attached"
            if kind == "ring":
                nodes = draw(st.lists(st.sampled_from(met_ids), min_size=k, max_size=k, unique=True))
            else:
                n_new = k if kind == "detached" else k - 1
                new = [f"M{len(met_ids) + t}" for t in range(n_new)]
                nodes = ([] if kind == "detached" else [draw(st.sampled_from(met_ids))]) + new
                spec["mets"].extend(_met(x) for x in new)
                met_ids.extend(new)
            edges = [(nodes[t], nodes[(t + 1) % k]) for t in range(k)]
        kinds.append(f"{kind}-{len(edges)}")
        for a, b in edges:
            along = draw(st.booleans())
            ga, gb = draw(st.sampled_from([(1, 1), (1, 1), (1, 1), (1, 1), (2, 2), (1, 2), (2, 1)]))
            # "against": written b -> a, the ring direction is then negative flux of the same conversion
            mets = {a: -ga, b: gb} if along else {b: -gb, a: ga}
            big = draw(st.sampled_from([100, 100, 10, 5, 1]))
            big_lo, big = min(cap_lo, big), min(cap_hi, big)
            bk = draw(st.sampled_from(["rev", "rev", "rev", "irr", "irr", "irr", "palette", "palette", "forced"]))
            if bk == "rev":
                lb, ub = -big_lo, big
            elif bk == "irr":
                lb, ub = (0, big) if along else (-big_lo, 0)
            elif bk == "forced":  # a flux the ring has to carry: the loop cannot be removed completely
                f = min(big if along else big_lo, draw(st.sampled_from([1, 2, 0.5])))
                lb, ub = (f, big) if along else (-big_lo, -f)
            else:
                lb, ub = draw(specs.bounds(pal))
                lb, ub = max(lb, -cap_lo), min(ub, cap_hi)
                if lb > ub:
                    lb = ub
            rid = f"C{len(cyc_ids)}"
            rxns.append(_rxn(rid, mets, lb, ub))
            cyc_ids.append(rid)
            budget -= 1
    have = {r["id"] for r in rxns}
    objective = {rid: c for rid, c in spec["objective"].items() if rid in have}
    omode = draw(st.sampled_from(["spec", "spec", "cycle", "mixed"]))
    if cyc_ids and omode != "spec":
        rid = draw(st.sampled_from(cyc_ids))
        c = draw(st.sampled_from([1, 1, -1, 2, 0.5]))
        objective = {rid: c} if omode == "cycle" else {**objective, rid: c}
    spec["objective"] = objective
    spec["cycle_kinds"] = kinds
    spec["cap"] = cap
    return spec


@st.composite
def cases(draw, max_int=5):
    spec = draw(cyclic_spec(max_int))
    rids = [r["id"] for r in spec["rxns"]]
    n_int = len(oracles.internal_ids(spec))
    extra = []
    for _ in range(draw(st.integers(0, 2))):
        ks = draw(st.lists(st.sampled_from(rids), min_size=1, max_size=2, unique=True))
        extra.append([{k: draw(st.sampled_from([1, 1, -1, 2, 0.5])) for k in ks}, draw(st.sampled_from(["max", "min"]))])
    push = draw(st.lists(st.sampled_from([-1, 0, 1, 1]), min_size=max(1, n_int), max_size=max(1, n_int)))
    if not any(push):
        push[0] = 1
    return {
        "spec": spec,
        "path": draw(st.sampled_from(build.BUILD_PATHS_LP)),
        "mode": draw(st.sampled_from(["solution", "add", "solution"])),
        "start": draw(st.sampled_from(["pushed", "pushed", "optimize", "none", "optimize", "pfba"])),
        "warm": draw(st.sampled_from([True, False])),
        "push": push,
        "as": draw(st.sampled_from(["dict", "series"])),
        "objectives": extra,
    }


# ------------------------------------------------------------------------------------------
# exact helpers
# ------------------------------------------------------------------------------------------
def removable_cycle(spec, flux, keep_objective=True) -> F:
    """Largest total cycle flux sum sigma_i w_i that can be taken out of `flux`:  S_int w = 0, w conformal with flux,
    |w_i| <= |v_i|, v - w inside the reaction bounds, and (keep_objective) c.w = 0."""
    ids = oracles.internal_ids(spec)
    rx = {r["id"]: r for r in spec["rxns"]}
    v = {rid: frac(float(flux[rid])) for rid in ids}
    act = [rid for rid in ids if v[rid] != 0]
    if not act:
        return F(0)
    idx = {rid: j for j, rid in enumerate(act)}
    lp = LP(len(act))
    for rid, j in idx.items():
        lb, ub = frac(rx[rid]["lb"]), frac(rx[rid]["ub"])
        if v[rid] > 0:
            floor = F(0) if lb is None else max(lb, F(0))
            lp.lb[j], lp.ub[j] = F(0), max(v[rid] - floor, F(0))
        else:
            ceil = F(0) if ub is None else min(ub, F(0))
            lp.lb[j], lp.ub[j] = min(v[rid] - ceil, F(0)), F(0)
    for m in spec["mets"]:
        row = {idx[rid]: frac(rx[rid]["mets"][m["id"]]) for rid in act if rx[rid]["mets"].get(m["id"], 0) != 0}
        if row:
            lp.add_row(row, 0, 0)
    if keep_objective:
        c = {idx[rid]: frac(cv) for rid, cv in (spec.get("objective") or {}).items() if rid in idx and cv != 0}
        if c:
            lp.add_row(c, 0, 0)
    res = lp.solve({idx[rid]: F(1 if v[rid] > 0 else -1) for rid in act}, "max")
    if res.status != "optimal":
        raise HarnessError(f"cycle LP {res.status}")
    return res.value


def cycle_members(spec):
    """Internal reactions that lie on some cycle of null(S_int) that the bounds allow to carry flux (direction-wise)."""
    ids = oracles.internal_ids(spec)
    if not ids:
        return set()
    rx = {r["id"]: r for r in spec["rxns"]}
    lp = LP(len(ids))
    for j, rid in enumerate(ids):
        lp.lb[j] = F(-1) if rx[rid]["lb"] < 0 else F(0)
        lp.ub[j] = F(1) if rx[rid]["ub"] > 0 else F(0)
    for m in spec["mets"]:
        row = {j: frac(rx[rid]["mets"][m["id"]]) for j, rid in enumerate(ids) if rx[rid]["mets"].get(m["id"], 0) != 0}
        if row:
            lp.add_row(row, 0, 0)
    from vfw.exactlp import Solver

    s = Solver(lp)
    out = set()
    for j, rid in enumerate(ids):
        if s.solve({j: F(1)}, "max").value > 0 or s.solve({j: F(1)}, "min").value < 0:
            out.add(rid)
    return out


def _sign_bounds(r, s):
    lb, ub = r["lb"], r["ub"]
    if s == 0:
        return (0, 0)
    return (max(lb, 0), ub) if s > 0 else (lb, min(ub, 0))


def loopless_optima(spec, objectives):
    """Exact optimum of every (objective, direction) over the flux distributions without internal cycle:
    enumeration of the maximal internal sign patterns that admit no conformal cycle. Entry None = no such distribution."""
    ids, pats = oracles.loopless_patterns(spec)
    rx = {r["id"]: r for r in spec["rxns"]}
    best = [None] * len(objectives)
    for signs in pats:
        flp = oracles.FluxLP(spec, bounds_override={rid: _sign_bounds(rx[rid], s) for rid, s in signs.items()})
        solver = flp.solver()
        if not solver.feasible:
            continue
        for k, (obj, sense) in enumerate(objectives):
            r = solver.solve({flp.idx[rid]: frac(c) for rid, c in obj.items() if c != 0}, sense)
            if r.status != "optimal":
                raise HarnessError(f"bounded LP reported {r.status}")
            if best[k] is None or (r.value > best[k] if sense == "max" else r.value < best[k]):
                best[k] = r.value
    return best


def formulation_optima(spec, objectives):
    """Exact optimum of the mixed-integer formulation add_loopless documents, WITH its choice of constants
    (1 <= |G_i| <= M, M = largest bound magnitude in the model), by enumeration of the indicator vectors.
    Used only to attribute a deviation to the delta_g range (bucket name / known-finding switch)."""
    ids = oracles.internal_ids(spec)
    rx = {r["id"]: r for r in spec["rxns"]}
    big = max(max(abs(frac(r["lb"])), abs(frac(r["ub"]))) for r in spec["rxns"])
    mids = [m["id"] for m in spec["mets"]]
    best = [None] * len(objectives)
    for a in itertools.product((0, 1), repeat=len(ids)):
        lp = LP(len(mids))
        for j in range(len(mids)):
            lp.lb[j], lp.ub[j] = None, None
        for rid, ai in zip(ids, a):
            row = {j: frac(rx[rid]["mets"][mid]) for j, mid in enumerate(mids) if rx[rid]["mets"].get(mid, 0) != 0}
            if ai:
                lp.add_row(row, -big, -1)
            else:
                lp.add_row(row, 1, big)
        if lp.solve({}, "max").status != "optimal":
            continue
        ov = {rid: ((max(rx[rid]["lb"], 0), rx[rid]["ub"]) if ai else (rx[rid]["lb"], min(rx[rid]["ub"], 0))) for rid, ai in zip(ids, a)}
        flp = oracles.FluxLP(spec, bounds_override=ov)
        solver = flp.solver()
        if not solver.feasible:
            continue
        for k, (obj, sense) in enumerate(objectives):
            r = solver.solve({flp.idx[rid]: frac(c) for rid, c in obj.items() if c != 0}, sense)
            if best[k] is None or (r.value > best[k] if sense == "max" else r.value < best[k]):
                best[k] = r.value
    return best


def _close(got, want, tol):
    return abs(got - float(want)) <= tol * max(1.0, abs(float(want)))


def _cdot(obj, flux):
    return sum(c * flux[rid] for rid, c in obj.items())


# ------------------------------------------------------------------------------------------
# the check
# ------------------------------------------------------------------------------------------
def check_case(case, ctx):
    build.reset_globals()
    spec = case["spec"]
    res, _ = oracles.fba(spec)
    n_int = len(oracles.internal_ids(spec))
    if res.status != "optimal":
        return {"nontrivial": False, "classes": [f"model-{res.status}"]}
    members = cycle_members(spec)
    rx = {r["id"]: r for r in spec["rxns"]}
    forced = any(not (rx[rid]["lb"] <= 0 <= rx[rid]["ub"]) for rid in oracles.internal_ids(spec))
    maxb = max(max(abs(r["lb"]), abs(r["ub"])) for r in spec["rxns"])
    classes = [f"mode-{case['mode']}", f"direction-{spec['direction']}", f"n_int-{n_int}",
               "max-bound-" + ("le2" if maxb <= 2 else "le10" if maxb <= 10 else "le100"),
               "cycle-possible" if members else "no-cycle-possible",
               "objective-on-cycle" if any(r in members for r, c in spec["objective"].items() if c != 0) else "objective-off-cycle"]
    classes += [f"built-{k}" for k in spec.get("cycle_kinds", [])]
    if forced:
        classes.append("forced-internal-bound")
    if case["mode"] == "solution":
        return _check_solution(case, ctx, spec, res, classes, forced)
    return _check_add(case, ctx, spec, classes, members)


def _check_solution(case, ctx, spec, res, classes, forced):
    import pandas as pd
    from cobra.flux_analysis import pfba
    from cobra.flux_analysis.loopless import loopless_solution

    model = build.build_model(spec, case["path"])
    rids = [r["id"] for r in spec["rxns"]]
    obj = {rid: c for rid, c in spec["objective"].items() if c != 0}
    opt = float(res.value)
    start = case["start"]
    classes.append(f"start-{start}")
    arg, v0 = None, None
    # a linear functional over the internal reactions (signs from the case): pushing it under the fixed objective
    # drives cycle flux to a bound
    ids = oracles.internal_ids(spec)
    functional = {rid: s for rid, s in zip(ids, case["push"]) if s}
    warm = bool(case["warm"]) and start != "pushed"

    def warm_up(m):
        # an earlier optimisation of another objective on the same model: the next optimize() warm-starts from its basis
        with m:
            m.objective = {m.reactions.get_by_id(rid): s for rid, s in functional.items()}
            m.objective_direction = "max"
            m.slim_optimize()

    if warm:
        classes.append("warm-basis")
        warm_up(model)
    if start == "optimize":
        s0 = model.optimize()
        v0 = {rid: float(s0.fluxes[rid]) for rid in rids}
        arg = s0.fluxes if case["as"] == "series" else dict(v0)
    elif start == "pfba":
        s0 = pfba(model)
        v0 = {rid: float(s0.fluxes[rid]) for rid in rids}
        arg = s0.fluxes if case["as"] == "series" else dict(v0)
    elif start == "pushed":
        flp = oracles.FluxLP(spec)
        flp.lp.add_row(flp.c, res.value, res.value)
        r = flp.lp.solve({flp.idx[rid]: F(s) for rid, s in functional.items()}, "max")
        if r.status != "optimal":
            raise HarnessError(f"vertex LP {r.status}")
        v0 = {rid: float(x) for rid, x in zip(rids, r.x)}
        arg = pd.Series(v0) if case["as"] == "series" else dict(v0)
    if v0 is not None:
        # the starting vector must be what the documentation asks for: feasible and optimal for this very model
        try:
            check_feasible_vector(spec, v0, "start")
        except PropertyViolation as e:
            raise HarnessError(f"starting vector ({start}) is not feasible: {e.message}")
        if not _close(_cdot(obj, v0), res.value, TOL):
            raise HarnessError(f"starting vector ({start}) has objective {_cdot(obj, v0)!r}, optimum {res.value}")
        probe = v0
        classes.append(f"as-{case['as']}")
    else:
        # what a fresh optimize() returns on an identical model: only used to classify the case
        twin = build.build_model(spec, case["path"])
        if warm:
            warm_up(twin)
        s0 = twin.optimize()
        probe = {rid: float(s0.fluxes[rid]) for rid in rids}
    scale0 = max([1.0] + [abs(x) for x in probe.values()])
    start_cycle = float(removable_cycle(spec, probe))
    nontrivial = start_cycle > 1e-5 * scale0
    classes.append("start-has-removable-cycle" if nontrivial else "start-cycle-free")

    try:
        sol = loopless_solution(model, arg)
    except Exception as e:  # noqa: BLE001 - any exception on a documented input breaks the statement
        _v("ll:raised", f"loopless_solution(fluxes={start}) raised {type(e).__name__}: {str(e)[:200]} (start {v0})")
    if sol is None or sol.status != "optimal":
        _v("ll:status", f"loopless_solution(fluxes={start}) returned status {getattr(sol, 'status', None)!r} for a feasible optimal starting "
                        f"vector {v0}")
    if list(sol.fluxes.index) != [r.id for r in model.reactions] or sorted(sol.fluxes.index) != sorted(rids):
        _v("ll:index", f"fluxes index {list(sol.fluxes.index)} but the model's reactions are {[r.id for r in model.reactions]}")
    v1 = {rid: float(sol.fluxes[rid]) for rid in rids}
    check_feasible_vector(spec, v1, "ll")
    # objective value: equal to the one of the starting solution
    want = opt if v0 is None else _cdot(obj, v0)
    got = _cdot(obj, v1)
    otol = TOL * max(1.0, abs(want), sum(abs(c) for c in obj.values()) * max(abs(x) for x in v1.values()))
    deviant_min = spec["direction"] == "min" and SIG_MIN in ctx.known
    if abs(got - want) > otol:
        if deviant_min and got > want:
            ctx.excluded_by(SIG_MIN)
            classes.append("known-min-objective-moved")
        else:
            bucket = "ll:objective-changed-min" if (spec["direction"] == "min" and got > want) else "ll:objective-changed"
            _v(bucket, f"objective {spec['objective']} ({spec['direction']}): c.v = {got!r} after loopless_solution(fluxes={start}) but the "
                       f"starting solution has {want!r}; start {v0}, result {v1}")
    if abs(sol.objective_value - got) > otol:
        _v("ll:objective-value", f"reported objective_value {sol.objective_value!r} but the returned fluxes give c.v = {got!r}")
    if v0 is not None:
        for r in spec["rxns"]:
            rid = r["id"]
            a, b = v0[rid], v1[rid]
            t = TOL * max(1.0, abs(a))
            if _is_boundary(r):
                if abs(a - b) > t:
                    _v("ll:boundary-changed", f"boundary reaction {rid}: flux {b!r} but the starting solution has {a!r}")
                continue
            if (a > t and b < -t) or (a < -t and b > t):
                _v("ll:sign-flipped", f"reaction {rid}: flux {b!r} has the opposite sign of the starting flux {a!r}")
            if abs(b) > abs(a) + t:
                _v("ll:magnitude-grew", f"reaction {rid}: |flux| {abs(b)!r} exceeds the starting magnitude {abs(a)!r} (start {a!r}, result {b!r})")
    scale1 = max([1.0] + [abs(x) for x in v1.values()])
    n_int = len(oracles.internal_ids(spec))
    left = removable_cycle(spec, v1)
    if not forced and left != oracles.removable_cycle(spec, {k: frac(float(x)) for k, x in v1.items()}):
        raise HarnessError("the two removable-cycle LPs disagree")
    if float(left) > TOL * scale1 * max(1, n_int):
        _v("ll:cycle-left", f"a conformal internal cycle of total flux {float(left)!r} can still be removed from the result {v1} without changing "
                            f"boundary fluxes, objective {spec['objective']}, signs or bounds (start: {v0 if v0 is not None else 'fresh optimum'})")
    return {"nontrivial": nontrivial, "classes": classes}


def _check_add(case, ctx, spec, classes, members):
    from cobra.flux_analysis.loopless import add_loopless

    model = build.build_model(spec, case["path"])
    rids = [r["id"] for r in spec["rxns"]]
    maxb = max(max(abs(r["lb"]), abs(r["ub"])) for r in spec["rxns"])
    try:
        add_loopless(model)
    except Exception as e:  # noqa: BLE001
        _v("al:raised", f"add_loopless raised {type(e).__name__}: {str(e)[:200]}")
    objectives = [[{k: c for k, c in spec["objective"].items() if c != 0}, spec["direction"]]] + [list(o) for o in case["objectives"]]
    exact = loopless_optima(spec, objectives)
    form = None
    changed = False
    for k, (obj, sense) in enumerate(objectives):
        plain, _ = oracles.fba({**spec, "objective": obj, "direction": sense})
        want = exact[k]
        if want is None or want != plain.value:
            changed = True
        if k:
            model.objective = {model.reactions.get_by_id(rid): c for rid, c in obj.items()}
            model.objective_direction = sense
        try:
            sol = model.optimize()
        except Exception as e:  # noqa: BLE001
            _v("al:optimize-raised", f"optimize() after add_loopless raised {type(e).__name__}: {str(e)[:200]}")
        got_value = sol.objective_value if sol.status == "optimal" else None
        ok = (want is None and got_value is None) or (want is not None and got_value is not None and _close(got_value, want, MTOL))
        what = f"objective {obj} ({sense}), largest |bound| in the model {maxb}"
        if not ok:
            if form is None:
                form = formulation_optima(spec, objectives)
            f = form[k]
            by_range = f != want and ((f is None and got_value is None) or (f is not None and got_value is not None and _close(got_value, f, MTOL)))
            if by_range and SIG_DG in ctx.known:
                ctx.excluded_by(SIG_DG)
                classes.append("known-delta-g-range")
                if got_value is None:
                    continue
            else:
                bucket = "al:delta-g-range" if by_range else ("al:status" if (want is None) != (got_value is None) else "al:wrong-optimum")
                _v(bucket, f"after add_loopless, {what}: status {sol.status!r} objective_value {got_value!r} but the exact optimum over "
                           f"cycle-free distributions is {'none (no cycle-free distribution)' if want is None else want} "
                           f"(plain optimum {plain.value}" + (f"; the formulation with 1<=|G|<=max bound gives {f})" if by_range else ")"))
        if got_value is None:
            continue
        if list(sol.fluxes.index) != [r.id for r in model.reactions] or sorted(sol.fluxes.index) != sorted(rids):
            _v("al:index", f"fluxes index {list(sol.fluxes.index)} but the model's reactions are {[r.id for r in model.reactions]}")
        v = {rid: float(sol.fluxes[rid]) for rid in rids}
        check_feasible_vector(spec, v, "al")
        cv = _cdot(obj, v)
        if abs(cv - got_value) > MTOL * max(1.0, abs(got_value)):
            _v("al:objective-vs-fluxes", f"{what}: objective_value {got_value!r} but the returned fluxes give {cv!r}")
        inside = float(oracles.removable_cycle({**spec, "objective": {}}, {k2: frac(x) for k2, x in v.items()}))
        if inside > MTOL * max([1.0] + [abs(x) for x in v.values()]) * max(1, len(oracles.internal_ids(spec))):
            _v("al:cycle-in-solution", f"{what}: the solution {v} reported after add_loopless contains a conformal internal cycle of total "
                                       f"flux {inside!r}")
    classes.append(f"objectives-{len(objectives)}")
    if any(e is None for e in exact):
        classes.append("no-cycle-free-distribution")
    classes.append("loopless-optimum-differs" if changed else "loopless-optimum-same")
    return {"nontrivial": bool(members), "classes": classes}


def hyp_phase(ctx):
    ctx.run_hypothesis(cases(ctx.params["max_int"]), check_case, "loopless", ctx.params["max_examples"])


def phases(tier):
    if tier == "quick":
        return [Phase("hyp", hyp_phase, shards=8, params={"max_examples": 350, "max_int": 5, "budget_s": 50})]
    return [Phase("hyp", hyp_phase, shards=16, params={"max_examples": 1500, "max_int": 6, "budget_s": 500})]


CHECKS = {"loopless": check_case}
