"""C07 - knocking out genes disables exactly the reactions whose rule becomes false."""
from __future__ import annotations

import itertools

from hypothesis import strategies as st

from vfw import build, gprtree, observe, specs
from vfw.engine import Phase, PropertyViolation

PROPERTY_ID = "C07"
RULE = (
    "Generator: ModelSpecs (<=5 metabolites x 2-7 reactions) with arbitrary and/or rule trees over <=6 shared genes "
    "(reactions without rule, reactions already at (0,0), duplicate genes inside a rule) x a subset of the genes in a "
    "generated order x route (Gene.knock_out one at a time; knock_out_model_genes with objects, ids or indices, in "
    "one call or several; Reaction.knock_out) x inside/outside a context x interface. Thorough tier additionally "
    "enumerates ALL subsets and, for <=4 genes, ALL orders for every generated model. Oracle: independent truth-table "
    "evaluator on the spec: bounds (0,0) iff rule false under the cumulative knock-out set, otherwise the original "
    "bounds; knocked-out genes non-functional, others functional; reaction.functional == rule value; raw GLPK columns "
    "agree; knock_out_model_genes returns exactly the associated reactions whose rule is false; after the context "
    "everything is restored. In a third of the cases the rules were evaluated once and then rewritten in place by "
    "remove_genes(remove_reactions=False) or rename_genes (incl. merges) before the knock-outs; the expected rules are "
    "derived on the spec. Non-trivial: some rule with >=2 genes stays true while another becomes false."
)
ASSUMPTIONS = [
    "gprtree.evaluate (20 lines, and/or over a tree) is the reference Boolean semantics.",
    "A reaction whose rule is false keeps (0,0) once set; no operation in the history widens bounds again.",
]


@st.composite
def cases(draw, exhaustive=False):
    spec = draw(specs.model_spec(max_mets=5, max_rxns=7, min_rxns=2, max_genes=6, min_genes=2, families=("sparse", "pathway"), palette="general"))
    # in a quarter of the cases the gene identifiers form a family in which each contains the previous one (g1, g10,
    # g101, ...: real models have b1 / b12), where substring tests and set membership differ
    if spec["genes"] and draw(st.integers(0, 3)) == 0:
        fam = ["g1", "g10", "g101", "g1010", "bg1", "g"]
        mapping = {g["id"]: fam[k % len(fam)] + ("" if k < len(fam) else f"_{k}") for k, g in enumerate(spec["genes"])}

        def ren(t):
            if t is None or isinstance(t, str):
                return mapping.get(t, t)
            return [t[0], *[ren(x) for x in t[1:]]]

        for g in spec["genes"]:
            g["id"] = mapping[g["id"]]
        for r in spec["rxns"]:
            r["gpr"] = ren(r["gpr"])
        for grp in spec.get("groups", []):
            grp["members"] = [[k, mapping.get(x, x) if k == "g" else x] for k, x in grp["members"]]
    genes = [g["id"] for g in spec["genes"]]
    # some reactions are closed already
    for r in spec["rxns"]:
        k = draw(st.integers(0, 9))
        if k == 0:
            r["lb"], r["ub"] = 0, 0
        elif k == 1:  # flux pinned to a non-zero value: still knocked out like any other reaction
            r["lb"] = r["ub"] = draw(st.sampled_from([2, 5, -3, 0.5]))
    order = draw(st.permutations(genes)) if genes else []
    k = draw(st.integers(0, len(order)))
    return {
        "spec": spec,
        "path": draw(st.sampled_from(build.BUILD_PATHS)),
        "order": list(order[:k]),
        "route": draw(st.sampled_from(["gene", "gene", "kmg_obj", "kmg_id", "kmg_index", "kmg_split", "kmg_dictlist"])),
        "context": draw(st.booleans()),
        "rxn_ko": draw(st.one_of(st.none(), st.integers(0, 20))),
        "pre": draw(st.sampled_from([0, 0, 1, 2])),
        "again": draw(st.booleans()),
        "nested": draw(st.sampled_from([False, False, True])),
        # the rules may have been rewritten in place before (remove_genes / rename_genes edit the rule objects), after the
        # rules were already evaluated once (reaction.functional, a knock-out round in a context that was left)
        "rewrite": None if exhaustive else draw(st.one_of(
            st.none(), st.none(),
            st.tuples(st.just("remove"), st.lists(st.integers(0, 5), min_size=1, max_size=2, unique=True)),
            st.tuples(st.just("rename"), st.lists(st.tuples(st.integers(0, 5), st.integers(0, 7)), min_size=1, max_size=2, unique_by=lambda t: t[0])))),
        "exhaustive": exhaustive,
        "copy_mid": None if exhaustive else draw(st.sampled_from([None, None, "copy", "pickle"])),
        # pure functions of the model's objects called before the knock-outs (copies, reaction arithmetic, pickles, text
        # forms): documented to leave their operands alone, so nothing below may depend on them (since seeded change C07-7)
        "harmless": [] if exhaustive else draw(st.one_of(st.just([]), st.just([]), st.lists(
            st.tuples(st.sampled_from(["copy_rxn", "copy_rxn", "mul", "add", "sub", "model_copy", "pickle_rxn", "text", "gene_copy",
                                       "remove_readd", "remove_readd", "remove_readd_ctx"]),
                      st.integers(0, 20), st.integers(0, 20)), min_size=1, max_size=3))),
    }


def _bad(bucket, msg):
    raise PropertyViolation(bucket, msg)


def verify_state(model, spec, knocked, rxn_ko, where):
    knocked = set(knocked)
    for r in spec["rxns"]:
        rx = model.reactions.get_by_id(r["id"])
        val = gprtree.evaluate(r["gpr"], knocked)
        want = (0, 0) if (not val or r["id"] == rxn_ko) else (r["lb"], r["ub"])
        if tuple(rx.bounds) != tuple(want):
            kind = "not-disabled" if want == (0, 0) else "wrongly-changed"
            _bad(f"{where}:{kind}", f"{r['id']} rule {gprtree.render(r['gpr'])!r} with {sorted(knocked)} absent is {val}: bounds should be {want}, are {rx.bounds}")
        if rx.functional != val:
            _bad(f"{where}:functional", f"{r['id']}.functional is {rx.functional}, rule {gprtree.render(r['gpr'])!r} with {sorted(knocked)} absent is {val}")
    for g in model.genes:
        if g.functional != (g.id not in knocked):
            _bad(f"{where}:gene-flag", f"gene {g.id} functional={g.functional} but knocked-out set is {sorted(knocked)}")
    observe.audit_solver(model, None, where)


def rewrite_rules(model, spec, rewrite, order, classes):
    """Evaluate every rule once, then let remove_genes(remove_reactions=False) / rename_genes rewrite the rules in place.
    Returns the spec of the rewritten model (derived on the spec by the documented semantics, independent of the library)
    and the knock-out order mapped to the genes that exist afterwards."""
    from cobra.manipulation import remove_genes, rename_genes

    gids = [g["id"] for g in spec["genes"]]
    if not gids:
        return spec, order
    # warm-up: functional flags, and one full knock-out round inside a context that is left again
    for rx in model.reactions:
        rx.functional
    with model:
        for gid in order:
            model.genes.get_by_id(gid).knock_out()
        for rx in model.reactions:
            rx.functional
    verify_state(model, spec, [], None, "warm-up")
    kind, arg = rewrite
    rxns = [dict(r) for r in spec["rxns"]]
    if kind == "remove":
        gone = sorted({gids[i % len(gids)] for i in arg})
        remove_genes(model, gone, remove_reactions=False)
        for r in rxns:
            if r["gpr"] is not None and gprtree.leaves(r["gpr"]) & set(gone):
                new = gprtree.restrict(r["gpr"], set(gone))
                r["gpr"] = None if new is False else new  # nothing remains of an unsatisfiable rule
        genes = [g for g in spec["genes"] if g["id"] not in gone]
        order = [g for g in order if g not in gone]
        classes.add("~rules-rewritten-by-remove_genes")
    else:
        names = gids + ["gNEW1", "gNEW2"]
        mapping = {}
        for i, j in arg:
            old, new = gids[i % len(gids)], names[j % len(names)]
            if old != new and old not in mapping and new not in mapping and old not in mapping.values():
                mapping[old] = new  # no chains (documented as undefined); two genes may share a target
        if not mapping:
            return spec, order
        rename_genes(model, dict(mapping))

        def ren(t):
            if t is None or isinstance(t, str):
                return mapping.get(t, t)
            return [t[0], *[ren(x) for x in t[1:]]]

        for r in rxns:
            r["gpr"] = ren(r["gpr"])
        seen, genes = set(), []
        for g in spec["genes"]:
            gid = mapping.get(g["id"], g["id"])
            if gid not in seen:
                seen.add(gid)
                genes.append({**g, "id": gid})
        order = list(dict.fromkeys(mapping.get(g, g) for g in order))
        classes.add("~rules-rewritten-by-rename_genes")
        if any(v in gids for v in mapping.values()):
            classes.add("~genes-merged-by-rename")
    return {**spec, "rxns": rxns, "genes": genes}, order


def run_order(case, order, ctx, classes):
    from cobra.manipulation import knock_out_model_genes

    spec = case["spec"]
    build.reset_globals()
    model = build.build_model(spec, case["path"])
    if case.get("rewrite"):
        spec, order = rewrite_rules(model, spec, case["rewrite"], order, classes)
    if case.get("harmless") and len(model.reactions):
        import pickle

        for kind, i, j in case["harmless"]:
            a, b = model.reactions[i % len(model.reactions)], model.reactions[j % len(model.reactions)]
            if kind == "copy_rxn":
                a.copy()
            elif kind == "mul":
                a * 2
            elif kind == "add":
                a + b
            elif kind == "sub":
                a - b
            elif kind == "model_copy":
                model.copy()
            elif kind == "pickle_rxn":
                pickle.loads(pickle.dumps(a))
            elif kind == "gene_copy" and len(model.genes):
                model.genes[i % len(model.genes)].copy()
            elif kind in ("remove_readd", "remove_readd_ctx"):
                # a reaction is taken out of the model and the same object is added again (its genes stay in the model
                # meanwhile): the model is what it was (C02), the knock-outs below must not notice (since seeded change C07-8)
                # (not inside a context on a copied/unpickled glpk_exact model: optlang rebuilds such a model with
                # variables of the other interface class and the undo of a removal raises - known finding
                # glpk-exact-copy-vartype of C01/C03/C12, nothing to do with knock-outs)
                mixed = model.problem.__name__.endswith("glpk_exact_interface") and case["path"] in ("copied", "pickled")
                if kind == "remove_readd_ctx" and not mixed:
                    with model:
                        model.remove_reactions([a])
                        model.add_reactions([a])
                else:
                    model.remove_reactions([a])
                    model.add_reactions([a])
            else:
                str(a), repr(a), a.build_reaction_string(), a.gene_name_reaction_rule
        classes.add("~harmless-calls-first")
    route = case["route"]
    rxn_ko = None
    cm = model if case["context"] else None
    knocked = []
    # knock-outs that happen before the context is entered stay in force after it is left; a gene may be knocked out
    # again inside (already non-functional), and contexts may nest
    pre_n = min(case.get("pre", 0), len(order)) if cm is not None else 0
    pre, order = list(order[:pre_n]), list(order[pre_n:])
    for gid in pre:
        model.genes.get_by_id(gid).knock_out()
        knocked.append(gid)
        verify_state(model, spec, knocked, None, "gene.knock_out")
    if pre and case.get("again"):
        order = order + pre[:1]
        classes.add("~knocked-out-again-inside")
    if pre:
        classes.add("~pre-context-knock-outs")
    before = observe.snapshot(model)
    depth = 0
    if cm is not None:
        cm.__enter__()
        depth = 1
        if case.get("nested"):
            cm.__enter__()
            depth = 2
            classes.add("~nested-context")
    try:
        if route == "gene":
            for gid in order:
                # outside a context the knock-outs may go on in a copy / an unpickled pickle of the model taken half way:
                # the copy carries the knock-out state (since seeded change C07-9)
                if cm is None and case.get("copy_mid") and order and gid == order[len(order) // 2] and knocked:
                    import pickle

                    model = model.copy() if case["copy_mid"] == "copy" else pickle.loads(pickle.dumps(model))
                    verify_state(model, spec, knocked, None, f"after-{case['copy_mid']}")
                    classes.add("~continued-on-a-copy")
                model.genes.get_by_id(gid).knock_out()
                knocked.append(gid)
                verify_state(model, spec, knocked, None, "gene.knock_out")
                if depth == 2 and gid == order[len(order) // 2]:
                    cm.__exit__(None, None, None)  # leave the inner context half way: everything done so far is undone
                    depth = 1
                    verify_state(model, spec, pre, None, "inner-context-exit")
                    knocked = list(pre)
        else:
            chunks = [order] if route != "kmg_split" else [order[: len(order) // 2], order[len(order) // 2:]]
            for chunk in chunks:
                if not chunk:
                    continue
                if route == "kmg_obj":
                    arg = [model.genes.get_by_id(g) for g in chunk]
                elif route == "kmg_dictlist":
                    from cobra import DictList

                    arg = DictList(model.genes.get_by_id(g) for g in chunk)
                elif route == "kmg_index":
                    arg = [model.genes.index(g) for g in chunk]
                else:
                    arg = list(chunk)
                got = knock_out_model_genes(model, arg)
                knocked.extend(chunk)
                verify_state(model, spec, knocked, None, "knock_out_model_genes")
                assoc = {r["id"] for r in spec["rxns"] if gprtree.leaves(r["gpr"]) & set(chunk)}
                want = {rid for rid in assoc if not gprtree.evaluate(next(r for r in spec["rxns"] if r["id"] == rid)["gpr"], knocked)}
                if sorted(r.id for r in got) != sorted(want) or len(got) != len(want):
                    _bad("knock_out_model_genes:return", f"returned {sorted(r.id for r in got)}, the reactions of {chunk} whose rule is false are {sorted(want)}")
        if case["rxn_ko"] is not None and spec["rxns"]:
            rxn_ko = spec["rxns"][case["rxn_ko"] % len(spec["rxns"])]["id"]
            model.reactions.get_by_id(rxn_ko).knock_out()
            verify_state(model, spec, knocked, rxn_ko, "reaction.knock_out")
            classes.add("~reaction-knock-out")
    finally:
        while cm is not None and depth:
            cm.__exit__(None, None, None)
            depth -= 1
    if cm is not None:
        d = observe.diff(before, observe.snapshot(model), limit=4)
        if d:
            _bad("context:not-restored", f"after the context the knock-outs of {order} ({route}; {pre} knocked out before entering) left: {d}")
        verify_state(model, spec, pre, None, "after-context")
    return set(order)


def check_case(case, ctx):
    spec = case["spec"]
    classes = {f"route-{case['route']}", "context" if case["context"] else "no-context", f"solver-{spec['solver']}"}
    run_order(case, case["order"], ctx, classes)
    n = 1
    if case.get("exhaustive"):
        genes = [g["id"] for g in spec["genes"]]
        for r in range(len(genes) + 1):
            for sub in itertools.combinations(genes, r):
                orders = itertools.permutations(sub) if len(genes) <= 4 and len(sub) <= 4 else [sub]
                for o in orders:
                    run_order({**case, "rxn_ko": None}, list(o), ctx, classes)
                    n += 1
        classes.add("~all-subsets")
    ko = set(case["order"])
    vals = [(len(gprtree.leaves(r["gpr"])), gprtree.evaluate(r["gpr"], ko)) for r in spec["rxns"] if r["gpr"] is not None]
    nontrivial = any(k >= 2 and v for k, v in vals) and any(not v for k, v in vals)
    if case.get("exhaustive") and len(spec["genes"]) >= 2:
        nontrivial = True
    return {"nontrivial": nontrivial, "classes": sorted(classes)}


def hyp_phase(ctx):
    ctx.run_hypothesis(cases(), check_case, "knockout", ctx.params["max_examples"])


def exh_phase(ctx):
    ctx.run_hypothesis(cases(exhaustive=True), check_case, "knockout", ctx.params["max_examples"], seed_extra=17)


def phases(tier):
    if tier == "quick":
        return [Phase("hyp", hyp_phase, shards=8, params={"max_examples": 600, "budget_s": 70})]
    return [Phase("hyp", hyp_phase, shards=8, params={"max_examples": 3000, "budget_s": 500}),
            Phase("exhaustive-subsets", exh_phase, shards=8, params={"max_examples": 60, "budget_s": 500})]


CHECKS = {"knockout": check_case}
