"""C18 - medium get/set are inverse; a minimal medium is sufficient and minimal."""
from __future__ import annotations

import itertools
import math
from fractions import Fraction as F

from hypothesis import strategies as st

from vfw import build, observe
from vfw.engine import Phase, PropertyViolation
from vfw.exactlp import LP, frac

PROPERTY_ID = "C18"
RULE = (
    "[since C18-5: one spec in five has a trace requirement - a biomass coefficient of 1e-3, 1e-4 or 2e-5; cases whose "
    "trace import is below 1e-5 are undetermined] "
    "Generator: two-compartment ModelSpecs with 1-6 exchange reactions 'EX_*' written 'met -->' (uptake = negative "
    "flux) or '--> met' (uptake = positive flux), coefficient 1 or 2, recognised through the external compartment "
    "(ids e / out / extracellular), with or without an SBO:0000627 annotation (string, lower case, list), or by the "
    "annotation alone on a cytosolic metabolite; import/export capacities in {0,1,2.5,5,10,100}, some exchanges with a "
    "forced export, sometimes a second exchange on the same external metabolite written the other way round (never more "
    "than 6 exchanges); transports e<->c (reversible / one-way, capacity 10-1000), a biomass-like objective (plus, rarely, a "
    "second coefficient on a non-exchange reaction) consuming 1-3 cytosolic "
    "metabolites and optionally releasing a by-product, 0-3 conversions (often a substitute nutrient -> required "
    "nutrient) and a random reaction between the cytosolic "
    "metabolites, 0-2 distractor boundaries that are NOT exchanges (DM_/SK_ on cytosolic metabolites, 'sink' ids and "
    "SBO demand/sink annotations on external metabolites); reaction order permuted; all build paths. "
    "(a) set/get cases: 1-3 steps, each 'model.medium = sub-dictionary of the exchanges' (any subset incl. empty/all, "
    "any key order, values in {0,0.5,1,2.5,10,100,1000}, int or float) or 'model.medium = model.medium'. Oracle: an "
    "independent bound table (listed: import-side bound = value; unlisted: import-side bound = min(current,0); "
    "export-side bounds and every other reaction untouched), compared reaction by reaction, then the whole model "
    "(public view + raw GLPK read-back) against a fresh build that carries the expected bounds; the getter must "
    "return exactly {id: import bound} of the exchanges with positive import bound, before and after every step; "
    "self-assignment must be the identity. "
    "(b) minimal_medium cases: min_objective_value = 0.1/0.25/0.4/0.5/0.9/1.0 x the exact optimum, 1.5 x optimum / "
    "optimum+1 (unreachable), the default 0.1, or 0.1/1 on models that cannot grow; exports on/off; minimize_components in {False, True, 2, 3}; "
    "open_exchanges in {False, True, 5, 20, 100}. Oracle (exact rational LPs on the spec, exchanges opened the "
    "documented way): None iff 'objective >= value' is infeasible (dead band 1e-4 around the optimum); every returned "
    "medium is the exchange profile of an exact feasible flux distribution reaching the value (listed imports and, "
    "with exports, listed exports matched within 1e-6, unlisted imports <= 1e-6), respects the import capacities, "
    "and - applied as medium through the independent bound table and, separately, through Model.medium on a fresh "
    "build - yields an exact optimum >= value - 1e-6; default mode: sum of imports equals the exact LP minimum; "
    "minimize_components: the number of components equals the exact minimum over all subsets of exchanges "
    "(exact LP per subset, ascending size), alternatives are each sufficient, of that size, pairwise different, at most n, and "
    "fewer than n only if no further minimal medium with an unseen component exists. "
    "Non-trivial: >= 3 exchanges with both written directions present, and (set/get) an assignment that both sets a "
    "listed import and closes an open unlisted one, or (minimal) the medium needs >= 2 components or has an "
    "alternative of the same size, or the value is unreachable on a model that can grow."
)
ASSUMPTIONS = [
    "Model.exchanges is the documented heuristic: a reaction annotated SBO:0000627 is an exchange; one annotated with "
    "another boundary/biomass SBO term is not; otherwise a reaction with exactly one metabolite, located in the external "
    "compartment (the only compartment whose id is 'e' or an 'extracellular'-like name), whose id contains none of "
    "demand/DM_/biosynthesis/transcription/replication/SN_/SK_/sink. The check recomputes this set from the spec and "
    "skips (class domain-skip:*) the case if Model.exchanges disagrees.",
    "Only media that are assignable are generated: the export side of every exchange contains 0 (ub >= 0 for "
    "'met -->', lb <= 0 for '--> met'), so no non-negative import value trips lb > ub; all bounds finite.",
    "Closing an unlisted exchange means import bound := min(current, 0): an exchange that is already forced to "
    "export keeps its bounds (DESIGN C18).",
    "minimal_medium is only called with a maximised objective and min_objective_value > 0 (documented domain); "
    "with open_exchanges the reference problem and the sufficiency test use the exchanges opened to (-b, b), "
    "b = 1000 for True.",
    "Tolerance 1e-6*max(1,|x|) on fluxes, totals and objective values; the None / not-None verdict and the component "
    "count are only asserted when the exact optimum (of the model, of a subset) is farther than 1e-4*max(1,|x|) from "
    "the requested value; a returned import below 1e-6 * largest exchange bound (documented MILP detection limit) "
    "makes the component count undetermined.",
    "Alternatives (minimize_components=n): 'up to n alternative solutions' is read in its most lenient form: validity, equal "
    "size, pairwise difference, at most n, and - only when fewer than n are returned - that no sufficient subset of the "
    "same size exists which uses an exchange absent from every returned medium (the documented search excludes the union "
    "of the components seen so far, so media that merely recombine seen components are not demanded).",
    "That minimal_medium leaves the model unchanged belongs to C13 and is not asserted here.",
]
TOL = 1e-6
BAND = 1e-4

SBO_EX, SBO_DM, SBO_SK = "SBO:0000627", "SBO:0000628", "SBO:0000632"
SBO_NOT_EX = {SBO_DM, SBO_SK, "SBO:0000629", "SBO:0000631"}
EXCLUDED_SUBSTRINGS = ["demand", "DM_", "biosynthesis", "transcription", "replication", "SN_", "SK_", "sink"]
EXTERNAL_NAMES = {"e", "extracellular", "extraorganism", "out", "extracellular space", "extra organism", "extra cellular",
                  "extra-organism", "external", "external medium"}


# ------------------------------------------------------------------------------------------
# generator
# ------------------------------------------------------------------------------------------
def _met(mid, comp):
    return {"id": mid, "compartment": comp, "formula": None, "charge": None, "name": "", "notes": {}, "annotation": {}}


def _rxn(rid, mets, lb, ub, ann=None):
    return {"id": rid, "mets": mets, "lb": lb, "ub": ub, "gpr": None, "name": "", "subsystem": "", "notes": {},
            "annotation": dict(ann or {})}


@st.composite
def model_specs(draw, forced_one_in=30):
    ext = draw(st.sampled_from(["e", "e", "e", "out", "extracellular"]))
    n_ex = draw(st.sampled_from([1, 2, 3, 3, 4, 4, 4, 5, 5, 6]))
    mets, rxns, cmets, emets = [], [], [], []
    importable, exportable = [], []
    n_total = n_ex  # never more than 6 exchanges: the reference enumerates all subsets
    for k in range(n_ex):
        way = draw(st.sampled_from(["consume", "produce"]))
        sbo_only = k > 0 and draw(st.integers(0, 7)) == 0
        mag = draw(st.sampled_from([1, 1, 1, 1, 2]))
        cid = f"x{k}_c"
        mets.append(_met(cid, "c"))
        cmets.append(cid)
        if sbo_only:
            on = cid
            ann = draw(st.sampled_from([{"sbo": SBO_EX}, {"sbo": [SBO_EX]}]))
        else:
            on = f"x{k}_e"
            mets.append(_met(on, ext))
            emets.append(on)
            ann = draw(st.sampled_from([{}, {}, {}, {"sbo": SBO_EX}, {"sbo": "sbo:0000627"}, {"sbo": [SBO_EX, "SBO:0000000"]}]))
            tlb, tub = draw(st.sampled_from([(-100, 100)] * 4 + [(-1000, 1000)] * 3 + [(0, 100), (0, 1000), (0, 10), (0, 10), (-100, 0)]))
            rxns.append(_rxn(f"T_x{k}", {on: -1, cid: 1}, tlb, tub))
        can_in, can_out = sbo_only or tub > 0, sbo_only or tlb < 0
        imp = draw(st.sampled_from([0, 1, 5, 5, 10, 10, 10, 100, 100, 2.5]))
        exp = draw(st.sampled_from([0, 10, 100, 100, 100]))
        if draw(st.integers(1, forced_one_in)) == 1:  # forced export
            imp = -draw(st.sampled_from([1, 2]))
            exp = max(exp, 10)
        if can_in and imp > 0:
            importable.append(cid)
        if can_out and exp > 0:
            exportable.append(cid)
        if way == "consume":  # "met -->": uptake is negative flux
            rxns.append(_rxn(f"EX_x{k}", {on: -mag}, -imp, exp, ann))
        else:  # "--> met": uptake is positive flux
            rxns.append(_rxn(f"EX_x{k}", {on: mag}, -exp, imp, ann))
        if n_total < 6 and not sbo_only and draw(st.integers(0, 7)) == 0:
            n_total += 1
            # a second exchange on the same external metabolite, written the other way round
            imp2, exp2 = draw(st.sampled_from([1, 5, 10, 100])), draw(st.sampled_from([0, 10, 100]))
            if way == "consume":
                rxns.append(_rxn(f"EX_x{k}_alt", {on: 1}, -exp2, imp2))
            else:
                rxns.append(_rxn(f"EX_x{k}_alt", {on: -1}, -imp2, exp2))

    k_req = draw(st.integers(1, min(3, n_ex)))
    pool = importable if len(importable) >= k_req and draw(st.integers(0, 3)) > 0 else cmets
    req = draw(st.lists(st.sampled_from(pool), min_size=k_req, max_size=k_req, unique=True))
    bio = {m: -draw(st.sampled_from([1, 1, 2, 3, 0.5])) for m in req}
    if draw(st.integers(0, 4)) == 0:
        # a trace requirement (cofactor-like biomass coefficient): the import it needs is orders of magnitude below the
        # other imports but well above the solver tolerance (since seeded change C18-5)
        bio[draw(st.sampled_from(req))] = -draw(st.sampled_from([1e-3, 1e-4, 2e-5]))
    rest = [m for m in cmets if m not in req]
    if rest and draw(st.integers(0, 2)) > 0:  # by-product that has to leave the cell
        out_pool = [m for m in rest if m in exportable]
        bio[draw(st.sampled_from(out_pool if out_pool and draw(st.integers(0, 3)) > 0 else rest))] = draw(st.sampled_from([1, 1, 2]))
    # one spec in six forces a minimal objective flux (maintenance-like): requested values below it are still "achievable"
    # (since seeded change C18-6); if the network cannot deliver it the model is infeasible and the verdict says so
    rxns.append(_rxn("BIOMASS", bio, draw(st.sampled_from([0, 0, 0, 0, 0, 0.5, 2])), draw(st.sampled_from([100, 1000, 1000, 10]))))

    if n_ex >= 2:
        n_conv = draw(st.integers(0, 3))
        subs = [m for m in rest if m in importable] or rest
        for i in range(n_conv):
            a, b = draw(st.lists(st.sampled_from(cmets), min_size=2, max_size=2, unique=True))
            if subs and draw(st.integers(0, 2)) > 0:  # a substitute: another nutrient can replace a required one
                a, b = draw(st.sampled_from(subs)), draw(st.sampled_from(req))
            lb, ub = draw(st.sampled_from([(0, 100), (0, 100), (-100, 100), (0, 10)]))
            rxns.append(_rxn(f"CONV{i}", {a: -draw(st.sampled_from([1, 1, 2])), b: draw(st.sampled_from([1, 1, 2]))}, lb, ub))
        if draw(st.integers(0, 3)) == 0:
            k = draw(st.integers(2, min(3, n_ex)))
            chosen = draw(st.lists(st.sampled_from(cmets), min_size=k, max_size=k, unique=True))
            lb, ub = draw(st.sampled_from([(0, 100), (-100, 100)]))
            rxns.append(_rxn("RND0", {m: draw(st.sampled_from([-2, -1, -1, 1, 1, 2, 0.5])) for m in chosen}, lb, ub))

    for i in range(draw(st.integers(0, 2))):
        kind = draw(st.sampled_from(["DM", "SK", "SK", "e_sink_id", "e_sbo_sink", "e_sbo_demand"]))
        if kind == "DM":
            rxns.append(_rxn(f"DM_{i}", {draw(st.sampled_from(cmets)): -1}, 0, draw(st.sampled_from([0, 10, 100]))))
        elif kind == "SK":
            rxns.append(_rxn(f"SK_{i}", {draw(st.sampled_from(cmets)): -1}, draw(st.sampled_from([-1, -10, -100])),
                             draw(st.sampled_from([0, 100]))))
        else:
            m = draw(st.sampled_from(emets))
            lb, ub = draw(st.sampled_from([(-10, 10), (-1, 100), (0, 100), (-100, 0)]))
            c = draw(st.sampled_from([-1, 1]))
            if kind == "e_sink_id":
                rxns.append(_rxn(f"EX_sink_{i}", {m: c}, lb, ub))
            elif kind == "e_sbo_sink":
                rxns.append(_rxn(f"EX_like_{i}", {m: c}, lb, ub, {"sbo": SBO_SK}))
            else:
                rxns.append(_rxn(f"EX_like_{i}", {m: c}, lb, ub, {"sbo": [SBO_DM]}))

    objective = {"BIOMASS": 1}
    if draw(st.integers(0, 7)) == 0:
        others = [r["id"] for r in rxns if not r["id"].startswith("EX_x") and r["id"] != "BIOMASS"]
        if others:
            objective[draw(st.sampled_from(others))] = draw(st.sampled_from([0.5, 1, 2]))
    order = draw(st.permutations(list(range(len(rxns)))))
    rxns = [rxns[i] for i in order]
    return {"id": "m", "name": None, "family": "exchange-rich", "mets": mets, "rxns": rxns, "genes": [], "objective": objective,
            "direction": "max", "groups": [], "compartments": {}, "solver": "glpk", "cons": [], "notes": {}, "annotation": {}}


MEDIUM_VALUES = [0, 0.0, 0.5, 1, 1.0, 2.5, 10, 10.0, 100, 1000]


@st.composite
def cases(draw, kind):
    spec = draw(model_specs(forced_one_in=8 if kind == "setget" else 30))
    ex_ids = [r["id"] for r in spec["rxns"] if r["id"].startswith("EX_x")]
    case = {"kind": kind, "spec": spec, "path": draw(st.sampled_from(build.BUILD_PATHS_LP))}
    if kind == "setget":
        steps = []
        for _ in range(draw(st.integers(1, 3))):
            if draw(st.integers(0, 4)) == 0:
                steps.append({"op": "self"})
            else:
                size = draw(st.sampled_from(["any", "any", "any", "empty", "all"]))
                if size == "empty":
                    ids = []
                elif size == "all":
                    ids = list(draw(st.permutations(ex_ids)))
                else:
                    ids = draw(st.lists(st.sampled_from(ex_ids), unique=True, max_size=len(ex_ids)))
                steps.append({"op": "set", "items": [[rid, draw(st.sampled_from(MEDIUM_VALUES))] for rid in ids]})
        case["steps"] = steps
    else:
        case["mov"] = draw(st.sampled_from([["frac", 0.1], ["frac", 0.25], ["frac", 0.25], ["frac", 0.4], ["frac", 0.5], ["frac", 0.9], ["frac", 1.0],
                                            ["frac", 1.5], ["plus", 1], ["default", 0.1]]))
        case["mov_fallback"] = draw(st.sampled_from([0.1, 1]))
        case["exports"] = draw(st.booleans())
        case["minimize_components"] = draw(st.sampled_from([False, False, False, True, True, 2, 2, 3, 3]))
        case["open_exchanges"] = draw(st.sampled_from([False, False, False, False, True, 5, 20, 100]))
    return case


# ------------------------------------------------------------------------------------------
# independent reference: which reactions are exchanges, what the medium is, what a set does
# ------------------------------------------------------------------------------------------
def _v(bucket, msg):
    raise PropertyViolation(bucket, msg)


def external_compartment(spec):
    comps = sorted({m["compartment"] for m in spec["mets"]})
    like = [c for c in comps if c in EXTERNAL_NAMES]
    return like[0] if len(like) == 1 else None


def exchange_table(spec):
    """{rid: orientation} of the reactions the documented heuristic calls exchanges; orientation +1 when a positive
    flux imports ('--> met'), -1 when a negative flux imports ('met -->'). None when the spec is outside the domain."""
    ext = external_compartment(spec)
    if ext is None:
        return None
    comp = {m["id"]: m["compartment"] for m in spec["mets"]}
    out = {}
    for r in spec["rxns"]:
        coefs = {m: c for m, c in r["mets"].items() if c != 0}
        sbo = r["annotation"].get("sbo", "")
        if isinstance(sbo, list):
            sbo = sbo[0]
        sbo = sbo.upper()
        if sbo == SBO_EX:
            is_ex = True
        elif sbo in SBO_NOT_EX:
            is_ex = False
        else:
            is_ex = (len(coefs) == 1 and not any(s in r["id"] for s in EXCLUDED_SUBSTRINGS)
                     and comp[next(iter(coefs))] == ext)
        if is_ex:
            if len(coefs) != 1:
                return None
            out[r["id"]] = 1 if next(iter(coefs.values())) > 0 else -1
    return out


def import_bound(bounds, rid, orient):
    lb, ub = bounds[rid]
    return ub if orient > 0 else -lb


def export_bound(bounds, rid, orient):
    lb, ub = bounds[rid]
    return -lb if orient > 0 else ub


def with_import_bound(bounds, rid, orient, value):
    lb, ub = bounds[rid]
    return (lb, value) if orient > 0 else (-value, ub)


def ref_medium(bounds, ex):
    return {rid: import_bound(bounds, rid, o) for rid, o in ex.items() if import_bound(bounds, rid, o) > 0}


def ref_set_medium(bounds, ex, items):
    new = dict(bounds)
    listed = set()
    for rid, val in items:
        new[rid] = with_import_bound(new, rid, ex[rid], val)
        listed.add(rid)
    for rid, o in ex.items():
        if rid not in listed:
            new[rid] = with_import_bound(new, rid, o, min(import_bound(new, rid, o), 0))
    return new


# ------------------------------------------------------------------------------------------
# exact LPs
# ------------------------------------------------------------------------------------------
def flux_lp(spec, bounds, extra=0):
    rx = spec["rxns"]
    lp = LP(len(rx) + extra)
    for j, r in enumerate(rx):
        lb, ub = bounds[r["id"]]
        lp.lb[j], lp.ub[j] = frac(lb), frac(ub)
    for m in spec["mets"]:
        row = {j: r["mets"][m["id"]] for j, r in enumerate(rx) if r["mets"].get(m["id"], 0) != 0}
        if row:
            lp.add_row(row, 0, 0)
    return lp


def objective_vector(spec):
    idx = {r["id"]: j for j, r in enumerate(spec["rxns"])}
    return {idx[rid]: frac(c) for rid, c in spec["objective"].items() if c != 0}


def max_objective(spec, bounds):
    """Exact maximum of the objective (Fraction) or None if infeasible."""
    res = flux_lp(spec, bounds).solve(objective_vector(spec), "max")
    if res.status == "infeasible":
        return None
    if res.status != "optimal":
        raise AssertionError(f"bounded problem reported {res.status}")
    return res.value


def close_imports_outside(bounds, ex, allowed):
    new = dict(bounds)
    for rid, o in ex.items():
        if rid not in allowed:
            new[rid] = with_import_bound(new, rid, o, min(import_bound(new, rid, o), 0))
    return new


def min_total_import(spec, bounds, ex, value):
    """Exact minimum of the summed import flux subject to objective >= value (None if infeasible)."""
    idx = {r["id"]: j for j, r in enumerate(spec["rxns"])}
    n = len(spec["rxns"])
    lp = flux_lp(spec, bounds, extra=len(ex))
    lp.add_row(objective_vector(spec), value, None)
    for k, (rid, o) in enumerate(ex.items()):
        lp.lb[n + k], lp.ub[n + k] = F(0), None
        lp.add_row({n + k: 1, idx[rid]: -o}, 0, None)  # t >= import flux
    res = lp.solve({n + k: 1 for k in range(len(ex))}, "min")
    return res.value if res.status == "optimal" else None


def profile_feasible(spec, bounds, ex, medium, value, exports):
    """Is there an exact steady state within the bounds with objective >= value whose oriented exchange fluxes
    match the reported medium (within TOL), unlisted exchanges importing nothing (and, with exports, exporting nothing)?"""
    new = dict(bounds)
    for rid, o in ex.items():
        lb, ub = frac(bounds[rid][0]), frac(bounds[rid][1])
        if rid in medium:
            m = F(medium[rid])
            t = F(TOL) * max(1, abs(m))
            lo, hi = m - t, m + t
        elif exports:
            lo, hi = -F(TOL), F(TOL)
        else:
            lo, hi = None, F(TOL)
        # oriented flux u = o * v in [lo, hi]
        vlo, vhi = (lo, hi) if o > 0 else (-hi, None if lo is None else -lo)
        if vlo is not None:
            lb = max(lb, vlo)
        if vhi is not None:
            ub = min(ub, vhi)
        new[rid] = (lb, ub)
    lp = flux_lp(spec, new)
    lp.add_row(objective_vector(spec), value, None)
    return lp.solve({}, "max").status == "optimal"


class SubsetOptima:
    """Exact maximum of the objective when only a given subset of the exchanges may import (memoised, on demand).
    The maximum is monotone in the subset, which the enumeration by ascending size relies on."""

    def __init__(self, spec, bounds, ex):
        self.spec, self.bounds, self.ex = spec, bounds, ex
        self.ids = list(ex)
        self.memo = {}

    def value(self, sub):
        sub = frozenset(sub)
        if sub not in self.memo:
            self.memo[sub] = max_objective(self.spec, close_imports_outside(self.bounds, self.ex, sub))
        return self.memo[sub]

    def reaches(self, sub, thr):
        g = self.value(sub)
        return g is not None and g >= thr

    def of_size(self, k, thr):
        """All subsets of size k whose optimum is >= thr."""
        return [frozenset(sub) for sub in itertools.combinations(self.ids, k) if self.reaches(sub, thr)]

    def min_size(self, thr):
        """Smallest number of importing exchanges with which the objective reaches thr (None if not even all do)."""
        if not self.reaches(self.ids, thr):
            return None
        for k in range(len(self.ids) + 1):
            if any(self.reaches(sub, thr) for sub in itertools.combinations(self.ids, k)):
                return k
        raise AssertionError("unreachable")


# ------------------------------------------------------------------------------------------
# the check
# ------------------------------------------------------------------------------------------
def _shape_classes(spec, ex):
    signs = set(ex.values())
    cls = [f"n-exchanges-{len(ex)}", "directions-both" if len(signs) == 2 else "directions-one",
           f"external-id-{external_compartment(spec)}"]
    comp = {m["id"]: m["compartment"] for m in spec["mets"]}
    rx = {r["id"]: r for r in spec["rxns"]}
    if any(comp[next(iter(rx[rid]["mets"]))] == "c" for rid in ex):
        cls.append("exchange-by-sbo-only")
    if any("sbo" in rx[rid]["annotation"] for rid in ex):
        cls.append("exchange-with-sbo")
    n_fake = sum(1 for r in spec["rxns"] if r["id"] not in ex and len(r["mets"]) == 1 and r["id"] != "BIOMASS")
    cls.append(f"distractor-boundaries-{n_fake}")
    if any(r["id"].startswith("EX_") and r["id"] not in ex for r in spec["rxns"]):
        cls.append("distractor-on-external-metabolite")
    if any(import_bound({rid: (rx[rid]["lb"], rx[rid]["ub"])}, rid, o) < 0 for rid, o in ex.items()):
        cls.append("forced-export-present")
    return cls


def check_case(case, ctx):
    build.reset_globals()
    spec = case["spec"]
    ex = exchange_table(spec)
    if ex is None:
        return {"nontrivial": False, "classes": ["domain-skip:no-unique-external-compartment"]}
    model = build.build_model(spec, case["path"])
    got = sorted(r.id for r in model.exchanges)
    if got != sorted(ex):
        return {"nontrivial": False, "classes": ["domain-skip:exchange-recognition-mismatch"]}
    classes = [f"kind-{case['kind']}"] + _shape_classes(spec, ex)
    rich = len(ex) >= 3 and len(set(ex.values())) == 2
    if case["kind"] == "setget":
        return check_setget(case, ctx, model, ex, classes, rich)
    return check_minimal(case, ctx, model, ex, classes, rich)


def _fmt_bounds(b):
    return f"({b[0]!r}, {b[1]!r})"


def _check_getter(model, bounds, ex, where):
    try:
        got = model.medium
    except Exception as e:  # noqa: BLE001
        _v("medium:getter-raised", f"{where}: reading model.medium raised {type(e).__name__}: {str(e)[:200]}")
    want = ref_medium(bounds, ex)
    if not isinstance(got, dict):
        _v("medium:getter", f"{where}: model.medium is a {type(got).__name__}, not a dict")
    for rid in sorted(set(got) | set(want)):
        if rid not in want:
            o = ex.get(rid)
            cap = import_bound(bounds, rid, o) if o else None
            _v("medium:getter-extra", f"{where}: model.medium lists {rid}={got[rid]!r} but its import bound is {cap!r} "
                                      f"(bounds {_fmt_bounds(bounds[rid]) if rid in bounds else '?'}, not a positive import)")
        if rid not in got:
            _v("medium:getter-missing", f"{where}: model.medium omits {rid} whose import bound is {want[rid]!r} "
                                        f"(bounds {_fmt_bounds(bounds[rid])}, '{'--> met' if ex[rid] > 0 else 'met -->'}')")
        if not (got[rid] == want[rid]):
            _v("medium:getter-value", f"{where}: model.medium[{rid}] = {got[rid]!r} but the import bound is {want[rid]!r} "
                                      f"(bounds {_fmt_bounds(bounds[rid])}, '{'--> met' if ex[rid] > 0 else 'met -->'}')")
    return got


def check_setget(case, ctx, model, ex, classes, rich):
    spec = case["spec"]
    bounds = {r["id"]: (r["lb"], r["ub"]) for r in spec["rxns"]}
    before_read = observe.snapshot(model)
    _check_getter(model, bounds, ex, "initial model")
    d = observe.diff(before_read, observe.snapshot(model), limit=3)
    if d:
        _v("medium:getter-changes-model", f"reading model.medium changed the model: {d}")
    nontrivial = False
    for n, step in enumerate(case["steps"]):
        where = f"step {n}"
        if step["op"] == "self":
            classes.append("op-self-assign")
            try:
                model.medium = model.medium
            except Exception as e:  # noqa: BLE001
                _v("medium:setter-raised", f"{where}: model.medium = model.medium raised {type(e).__name__}: {str(e)[:200]}")
            expected = dict(bounds)  # the identity
            items = None
        else:
            items = step["items"]
            classes.append("op-set")
            listed = {rid for rid, _ in items}
            if not items:
                classes.append("set-empty")
            elif len(listed) == len(ex):
                classes.append("set-all")
            if any(v == 0 for _, v in items):
                classes.append("set-zero-value")
            try:
                model.medium = {rid: v for rid, v in items}
            except Exception as e:  # noqa: BLE001
                _v("medium:setter-raised", f"{where}: model.medium = {dict(items)} raised {type(e).__name__}: {str(e)[:200]}")
            expected = ref_set_medium(bounds, ex, items)
            closes = any(rid not in listed and import_bound(bounds, rid, o) > 0 for rid, o in ex.items())
            sets = any(v != import_bound(bounds, rid, ex[rid]) for rid, v in items)
            if closes:
                classes.append("set-closes-open-exchange")
            if any(rid not in listed and import_bound(bounds, rid, o) < 0 for rid, o in ex.items()):
                classes.append("set-leaves-forced-export")
            if any(import_bound(bounds, rid, ex[rid]) < 0 for rid in listed):
                classes.append("set-lists-forced-export")
            nontrivial = nontrivial or (rich and closes and sets)
        desc = "model.medium = model.medium" if items is None else f"model.medium = {dict(items)}"
        for r in spec["rxns"]:
            rid = r["id"]
            rx = model.reactions.get_by_id(rid)
            got_b, want_b = (rx.lower_bound, rx.upper_bound), expected[rid]
            if got_b[0] == want_b[0] and got_b[1] == want_b[1]:
                continue
            if rid not in ex:
                _v("medium:setter-non-exchange", f"{where}: {desc} changed the non-exchange reaction {rid}: bounds "
                                                 f"{_fmt_bounds(got_b)}, expected {_fmt_bounds(want_b)}")
            o = ex[rid]
            arrow = "'--> met'" if o > 0 else "'met -->'"
            gi, wi = import_bound({rid: got_b}, rid, o), import_bound({rid: want_b}, rid, o)
            ge, we = export_bound({rid: got_b}, rid, o), export_bound({rid: want_b}, rid, o)
            if not (ge == we):
                _v("medium:setter-export", f"{where}: {desc}: export-side bound of {rid} ({arrow}) is {ge!r}, expected untouched {we!r} "
                                           f"(bounds {_fmt_bounds(got_b)}, before {_fmt_bounds(bounds[rid])})")
            if items is None:
                _v("medium:self-assign", f"{where}: {desc} changed the import bound of {rid} ({arrow}) from {wi!r} to {gi!r} "
                                         f"(bounds {_fmt_bounds(got_b)}, before {_fmt_bounds(bounds[rid])})")
            if rid in {i for i, _ in items}:
                _v("medium:setter-import", f"{where}: {desc}: import bound of listed {rid} ({arrow}) is {gi!r}, expected {wi!r} "
                                           f"(bounds {_fmt_bounds(got_b)}, before {_fmt_bounds(bounds[rid])})")
            _v("medium:setter-close", f"{where}: {desc}: import bound of unlisted {rid} ({arrow}) is {gi!r}, expected {wi!r} = "
                                      f"min(previous, 0) (bounds {_fmt_bounds(got_b)}, before {_fmt_bounds(bounds[rid])})")
        bounds = expected
        _check_getter(model, bounds, ex, f"after {where} ({desc})")
        # the whole model (incl. the raw solver problem) equals a fresh build with the expected bounds
        spec2 = dict(spec)
        spec2["rxns"] = [{**r, "lb": bounds[r["id"]][0], "ub": bounds[r["id"]][1]} for r in spec["rxns"]]
        fresh = build.build_model(spec2, case["path"])
        d = observe.diff(observe.snapshot(fresh), observe.snapshot(model), limit=4)
        if d:
            _v("medium:setter-model-state", f"{where}: after {desc} the model differs from a fresh build with the expected bounds "
                                            f"(left = expected): {d}")
    return {"nontrivial": nontrivial, "classes": sorted(set(classes))}


def _media_from_result(res, n_alt):
    """List of {id: float} from the Series / DataFrame; zero fill-ins of the DataFrame form dropped."""
    import pandas as pd

    if isinstance(res, pd.Series):
        cols = [res]
    elif isinstance(res, pd.DataFrame):
        if n_alt < 2:
            _v("minimal:result-type", f"a DataFrame with {res.shape[1]} columns was returned although no alternatives were requested")
        cols = [res[c] for c in res.columns]
    else:
        _v("minimal:result-type", f"minimal_medium returned a {type(res).__name__}")
    media = []
    for s in cols:
        if len(set(s.index)) != len(s.index):
            _v("minimal:result-type", f"duplicate ids in the returned medium: {list(s.index)}")
        m = {}
        for rid, val in s.items():
            val = float(val)
            if math.isnan(val):
                _v("minimal:result-type", f"NaN entry for {rid} in the returned medium")
            if val == 0.0 and len(cols) > 1:
                continue
            m[str(rid)] = val
        media.append(m)
    return media


def check_minimal(case, ctx, model, ex, classes, rich):
    from cobra.medium import minimal_medium

    spec = case["spec"]
    bounds = {r["id"]: (r["lb"], r["ub"]) for r in spec["rxns"]}
    oe = case["open_exchanges"]
    if oe is not False:
        ob = 1000 if oe is True else oe
        for rid in ex:
            bounds[rid] = (-ob, ob)
    mc, exports = case["minimize_components"], case["exports"]
    n_alt = 1 if mc is True else (0 if mc is False else mc)
    classes += [f"components-arg-{mc}", f"exports-{exports}", f"open_exchanges-{oe}"]

    opt = max_objective(spec, bounds)
    mode, arg = case["mov"]
    if opt is None or opt < F(1, 100):
        value = float(case["mov_fallback"])
        mode = "fallback"
    elif mode == "frac":
        value = float(opt * frac(arg))
    elif mode == "plus":
        value = float(opt + arg)
    else:
        value = 0.1
    classes.append(f"value-{mode}" + (f"-{arg}" if mode == "frac" else ""))
    exact_value = F(value)
    band = F(BAND) * max(1, abs(opt)) if opt is not None else F(0)
    if opt is None:
        verdict = "unreachable"
        classes.append("model-infeasible")
    elif opt - exact_value >= band:
        verdict = "reachable"
    elif exact_value - opt >= band:
        verdict = "unreachable"
    else:
        verdict = "undetermined"
    classes.append(f"exact-{verdict}")

    trace = min((abs(c) for r in spec["rxns"] if r["id"] == "BIOMASS" for c in r["mets"].values()), default=1)
    if trace < 0.01:
        classes.append("trace-requirement")
        if opt is not None and F(trace) * min(exact_value, opt) < F(1, 100000):
            # the import the trace component needs is within two orders of the solver tolerance: a medium without it is
            # as good as one with it for the solver, nothing can be asserted
            return {"nontrivial": False, "classes": sorted(set(classes + ["trace-requirement-below-resolution"])), "undetermined": 1}
    if trace < 0.01 and verdict == "unreachable":
        # with a trace requirement "unreachable" may hinge on an amount the solver cannot resolve (a missing import of
        # 5e-4 is accepted by GLPK after scaling): the verdict stands only if the value is also out of reach without the
        # trace requirement
        import copy as _copy

        spec0 = _copy.deepcopy(spec)
        for r in spec0["rxns"]:
            if r["id"] == "BIOMASS":
                r["mets"] = {m: c for m, c in r["mets"].items() if abs(c) >= 0.01}
        opt0 = max_objective(spec0, bounds)
        if not (opt0 is None or exact_value - opt0 >= F(BAND) * max(1, abs(opt0))):
            verdict = "undetermined"
            classes.append("unreachable-only-by-a-trace-amount")
    kwargs = {"exports": exports, "minimize_components": mc, "open_exchanges": oe}
    call = f"minimal_medium(model, {'' if mode == 'default' else repr(value) + ', '}" + ", ".join(f"{k}={v!r}" for k, v in kwargs.items()) + ")"
    points = []
    restore = _record_solver_points(points)
    try:
        res = minimal_medium(model, **kwargs) if mode == "default" else minimal_medium(model, value, **kwargs)
    except Exception as e:  # noqa: BLE001
        _v("minimal:raised", f"{call} raised {type(e).__name__}: {str(e)[:200]} (exact optimum {opt})")
    finally:
        restore()
    # The point the solver handed back when a medium was read off it must itself be a flux distribution of the
    # constrained problem. GLPK's MIP presolver reasons about bounds with an absolute tolerance of 1e-3 and returns, with
    # status optimal, points that violate the objective constraint by orders of magnitude when a needed import is smaller
    # than that (known finding glpk-mip-infeasible-point): such a case says nothing about minimal_medium's own logic.
    if res is not None and verdict != "unreachable":
        for k, pt in enumerate(points):
            why = _point_infeasible(spec, bounds, pt, value)
            if why:
                if "glpk-mip-infeasible-point" in ctx.known:
                    ctx.excluded_by("glpk-mip-infeasible-point")
                    return {"nontrivial": False, "classes": sorted(set(classes + ["solver-point-infeasible"])), "undetermined": 1}
                _v("minimal:solver-point-infeasible", f"{call}: the solver reported optimal for solve #{k} but the point it returned is not a "
                                                      f"flux distribution of the problem: {why}; result {_short_res(res)}")
    undetermined = 0
    if res is None:
        if verdict == "reachable":
            _v("minimal:none-but-reachable", f"{call} returned None but objective >= {value!r} is feasible: the exact optimum is {opt} "
                                             f"= {float(opt)!r}")
        if verdict == "undetermined":
            return {"nontrivial": False, "classes": sorted(set(classes + ["result-none"])), "undetermined": 1}
        classes.append("result-none")
        return {"nontrivial": rich and opt is not None and opt >= F(1, 100), "classes": sorted(set(classes))}
    if verdict == "unreachable":
        _v("minimal:medium-for-unreachable", f"{call} returned {_short_res(res)} but objective >= {value!r} is infeasible: the exact "
                                             f"optimum is {opt if opt is None else float(opt)!r}")
    if verdict == "undetermined":
        undetermined += 1

    media = _media_from_result(res, n_alt)
    classes.append("result-medium" if len(media) == 1 else f"result-columns-{len(media)}")
    if n_alt >= 2:
        classes.append("alternatives-requested")
    if len(media) > max(1, n_alt):
        _v("minimal:too-many-alternatives", f"{call} returned {len(media)} media, at most {max(1, n_alt)} requested")
    # a request inside the dead band above the optimum was accepted by solver tolerance: the medium then has to reach the optimum
    target = min(exact_value, opt)
    obj_tol = F(TOL) * max(1, abs(exact_value))
    subsets = SubsetOptima(spec, bounds, ex) if mc else None
    supports = []
    for i, med in enumerate(media):
        tag = f"{call}: medium #{i} {med}"
        pos = {rid: v for rid, v in med.items() if v > 0}
        supports.append(frozenset(pos))
        for rid, v in med.items():
            if rid not in ex:
                _v("minimal:foreign-id", f"{tag} lists {rid}, which is not an exchange reaction (exchanges: {sorted(ex)})")
            if v <= 0 and not exports:
                _v("minimal:export-listed", f"{tag} lists {rid} = {v!r} although exports=False (only imports > 0 are documented)")
            o = ex[rid]
            cap = import_bound(bounds, rid, o) if v > 0 else export_bound(bounds, rid, o)
            if abs(v) > float(cap) + TOL * max(1.0, abs(float(cap))):
                _v("minimal:exceeds-bound", f"{tag}: {rid} = {v!r} exceeds the {'import' if v > 0 else 'export'} bound {cap!r} of the "
                                            f"reaction (bounds {_fmt_bounds(bounds[rid])}, '{'--> met' if o > 0 else 'met -->'}')")
        if any(v < 0 for v in med.values()):
            classes.append("exports-reported")
        if not pos:
            classes.append("empty-medium")
        # (1) the reported numbers are the exchange profile of a feasible distribution reaching the value
        if not profile_feasible(spec, bounds, ex, med, target - obj_tol, exports):
            imports_only = profile_feasible(spec, bounds, ex, pos, target - obj_tol, False)
            kind = "minimal:exports-not-a-flux-profile" if imports_only else "minimal:not-a-flux-profile"
            _v(kind, f"{tag}: no exact steady state within the bounds has objective >= {value!r} and exchange fluxes "
                     f"{'(imports and exports) ' if exports else ''}equal to the reported ones with the unlisted exchanges "
                     f"{'idle' if exports else 'not importing'} (exact optimum {float(opt)!r}; imports alone "
                     f"{'are' if imports_only else 'are not'} consistent)")
        # (2) applied as medium (reference semantics of the setter) the requested value is reached
        #     (each reported import widened by the flux tolerance: the reported floats carry rounding in the last digit)
        applied = ref_set_medium(bounds, ex, [(rid, F(v) + F(TOL) * max(1, F(v))) for rid, v in pos.items()])
        reach = max_objective(spec, applied)
        if reach is None or reach < target - obj_tol:
            _v("minimal:insufficient", f"{tag}: with these import bounds and all other imports closed the exact optimum is "
                                       f"{None if reach is None else float(reach)!r}, requested {value!r}")
        # (3) the same through the public setter on a fresh build
        spec2 = dict(spec)
        spec2["rxns"] = [{**r, "lb": bounds[r["id"]][0], "ub": bounds[r["id"]][1]} for r in spec["rxns"]]
        fresh = build.build_model(spec2, case["path"])
        fresh.medium = dict(pos)
        growth = fresh.slim_optimize()
        # every import the solver reported may be off by its feasibility tolerance: for a trace import that is a
        # visible fraction of the objective it supports
        loss = min(0.5, sum(TOL / v for v in pos.values() if v < 1)) if trace < 0.01 else 0.0
        if not (isinstance(growth, float) and growth >= float(target) * (1 - loss) - TOL * max(1.0, abs(value))):
            _v("minimal:roundtrip-insufficient", f"{tag}: a fresh model with model.medium = {pos} optimises to {growth!r}, "
                                                 f"requested {value!r} (exact optimum under the reference semantics: {float(reach)!r})")
        # (4) minimality
        if not mc:
            total = sum(pos.values())
            best = min_total_import(spec, bounds, ex, target)
            lo = min_total_import(spec, bounds, ex, target - obj_tol)
            if best is None or lo is None:
                raise AssertionError("reference LP infeasible below the exact optimum")
            if total > float(best) + TOL * max(1.0, float(best)):
                _v("minimal:total-not-minimal", f"{tag}: total import {total!r} but the exact minimum of the summed import flux for "
                                                f"objective >= {value!r} is {best} = {float(best)!r}")
            if total < float(lo) - TOL * max(1.0, float(lo)):
                _v("minimal:total-below-minimum", f"{tag}: total import {total!r} is below the exact minimum {float(lo)!r} "
                                                  f"needed for objective >= {value!r}")
        else:
            k_lo, k_hi = subsets.min_size(exact_value - band), subsets.min_size(exact_value + band)
            big_m = max(abs(b) for rid in ex for b in bounds[rid])
            if any(v < 1e-6 * big_m for v in pos.values()) or k_lo != k_hi:
                undetermined += 1
                classes.append("component-count-undetermined")
            elif len(pos) != k_lo:
                witness = sorted(min(subsets.of_size(k_lo, exact_value + band), key=sorted))
                _v("minimal:components-not-minimal", f"{tag} has {len(pos)} components {sorted(pos)} but the exact minimum number is "
                                                     f"{k_lo}: imports through {witness} alone reach {float(subsets.value(witness))!r} "
                                                     f">= {value!r}")
    for i, j in itertools.combinations(range(len(media)), 2):
        if supports[i] == supports[j]:
            kind = "minimal:duplicate-alternative-empty" if not supports[i] else "minimal:duplicate-alternative"
            if not supports[i] and "alternatives-empty-duplicate" in ctx.known:
                ctx.excluded_by("alternatives-empty-duplicate")
                continue
            _v(kind, f"{call}: alternatives #{i} and #{j} have the same components {sorted(supports[i])}: {media[i]} / {media[j]}")

    if n_alt >= 2:
        classes.append(f"alternatives-distinct-{len(set(supports))}")
        if len(media) < n_alt and "component-count-undetermined" not in classes:
            union = frozenset().union(*supports)
            k = len(supports[0])
            missed = sorted(sorted(s) for s in subsets.of_size(k, exact_value + band) if not s <= union)
            if missed:
                _v("minimal:alternative-missed", f"{call} returned {len(media)} of the {n_alt} requested media ({[sorted(x) for x in supports]}) "
                                                 f"although imports through {missed[0]} alone (same size {k}, with a component used by none "
                                                 f"of the returned media) reach {float(subsets.value(missed[0]))!r} >= {value!r}")
    if not mc:
        nontrivial = rich and len(supports[0]) >= 2
        classes.append(f"components-{min(len(supports[0]), 3)}{'+' if len(supports[0]) >= 3 else ''}")
    else:
        k = len(supports[0])
        same = subsets.of_size(k, exact_value + band)
        if len(same) >= 2:
            classes.append("alternative-exists")
        nontrivial = rich and (k >= 2 or len(same) >= 2)
        classes.append(f"components-{min(k, 3)}{'+' if k >= 3 else ''}")
    out = {"nontrivial": nontrivial, "classes": sorted(set(classes))}
    if undetermined:
        out["undetermined"] = undetermined
    return out


def _record_solver_points(points):
    """Parent-side wrapper (no source hook): every time minimal_medium reads a medium off the solver the fluxes of all
    reactions at that moment are appended to `points`. Returns the function that removes the wrapper. If the module has
    no such helper any more nothing is recorded (the relation that depends on it is then simply not evaluated)."""
    import sys

    import cobra.medium  # noqa: F401 - the package attribute of that name is the function, the module is in sys.modules

    mm = sys.modules["cobra.medium.minimal_medium"]
    orig = getattr(mm, "_as_medium", None)
    if orig is None:
        return lambda: None

    def wrapper(exchanges, *a, **k):
        med = orig(exchanges, *a, **k)
        try:
            ex = list(exchanges)
            if ex and ex[0].model is not None:
                mdl = ex[0].model
                pt = {r.id: float(r.flux) for r in mdl.reactions}
                # the on/off variables of the component-count formulation, if this is that formulation
                ind = {r.id: float(mdl.variables["ind_" + r.id].primal) for r in ex if "ind_" + r.id in mdl.variables}
                pt["__ind__"] = ind
                pt["__medium__"] = {str(kk): float(vv) for kk, vv in med.items()}
                points.append(pt)
        except Exception:  # noqa: BLE001 - observation only
            pass
        return med

    mm._as_medium = wrapper

    def restore():
        mm._as_medium = orig

    return restore


def _point_infeasible(spec, bounds, pt, value):
    """None if the float point satisfies steady state, the bounds and objective >= value within 1e-6 (scaled), else what fails."""
    scale = max([1.0] + [abs(v) for k, v in pt.items() if not k.startswith("__")])
    for r in spec["rxns"]:
        v = pt.get(r["id"])
        if v is None:
            return None  # not a point of this model (wrapper saw something else): no statement
        lb, ub = (float(b) for b in bounds[r["id"]])
        if v < lb - 1e-6 * max(1.0, abs(lb)) or v > ub + 1e-6 * max(1.0, abs(ub)):
            return f"{r['id']} = {v!r} outside its bounds ({lb!r}, {ub!r})"
    for m in spec["mets"]:
        res = sum(float(r["mets"][m["id"]]) * pt[r["id"]] for r in spec["rxns"] if m["id"] in r["mets"])
        if abs(res) > 1e-6 * scale:
            return f"steady state of {m['id']} violated by {res!r}"
    obj = sum(float(c) * pt[rid] for rid, c in spec["objective"].items())
    if obj < value - 1e-6 * max(1.0, abs(value)):
        return f"objective {obj!r} below the required {value!r}"
    # component-count formulation: an import well above the documented detection limit (integrality tolerance x largest
    # bound = 1e-7 x bound; ten times that is used here) whose on/off variable is off violates the linking constraint
    ind, med = pt.get("__ind__") or {}, pt.get("__medium__") or {}
    if ind:
        big_m = max([1.0] + [abs(float(b)) for rid in ind for b in bounds[rid]])
        for rid, y in ind.items():
            if y < 0.5 and med.get(rid, 0.0) > 1e-6 * big_m:
                return f"import {rid} = {med[rid]!r} with its on/off variable at {y!r} (linking constraint violated)"
    return None


def _short_res(res):
    try:
        return repr(res.to_dict())[:200]
    except Exception:  # noqa: BLE001
        return repr(res)[:200]


# ------------------------------------------------------------------------------------------
# phases
# ------------------------------------------------------------------------------------------
def search_phase(ctx):
    # one phase so that both kinds run side by side: the first `setget_shards` shards assign media, the others call minimal_medium
    if ctx.shard < ctx.params["setget_shards"]:
        ctx.run_hypothesis(cases("setget"), check_case, "medium", ctx.params["max_examples"])
    else:
        ctx.run_hypothesis(cases("minimal"), check_case, "medium", ctx.params["max_examples"], seed_extra=5)


def phases(tier):
    if tier == "quick":
        return [Phase("medium", search_phase, shards=8, params={"max_examples": 300, "budget_s": 50, "setget_shards": 3})]
    return [Phase("medium", search_phase, shards=16, params={"max_examples": 2500, "budget_s": 480, "setget_shards": 5})]


CHECKS = {"medium": check_case}
