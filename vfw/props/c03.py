"""C03 - leaving a `with model:` block restores the model completely."""
from __future__ import annotations

from hypothesis import strategies as st

from vfw import build, observe, ops, specs
from vfw.engine import Phase, PropertyViolation
from vfw.props import c01

PROPERTY_ID = "C03"
RULE = (
    "Generator: ModelSpec (<=5x6x6, groups, both interfaces) + history of <=30/50 ops in which `with model:` blocks "
    "(nesting <=3) contain only operations documented as reversible (vfw/ops.py REVERSIBLE: add/remove reactions, "
    "metabolites, boundaries, user constraints/variables; stoichiometry edits incl. *=, +=, -=, "
    "build_reaction_from_string; bounds and knock-outs; rules; gene knock-out/removal/renaming; objective, "
    "coefficient and direction; medium; merge(inplace); solver; optimisations; helpers add_pfba/add_moma/add_room/"
    "add_loopless/add_lp_feasibility/fix_objective_as_constraint/add_absolute_expression) and end normally, by a "
    "harness fault at a generated position, or by the first inner operation that raises; arbitrary ops between "
    "blocks. Oracle: snapshot (public Python view incl. cross-reference sets, objective, direction, raw GLPK problem "
    "by name) at __enter__ == snapshot after the matching __exit__ (list order ignored, stoichiometric/solver "
    "coefficients rel 1e-9), __exit__ does not raise, cross-reference audit passes. Non-trivial: a block with >=2 "
    "effective ops of different kinds, or nesting >=2, or an exceptional exit; distinct by canonical hash."
)
ASSUMPTIONS = [
    "Only operations whose documentation (docstring, @resettable, or the statement of C03) promises reversibility "
    "are executed inside a block; id assignment, escape_ID, groups, tolerance, compartments, in-place metadata "
    "edits and repair() are executed between blocks only.",
    "Coefficients touched inside a block may differ by float round-off of (a+c)-c (rel 1e-9): add_metabolites "
    "documents its undo as subtracting the same amounts.",
]


def case_strategy(max_ops=30):
    weights = {n: 1 for n in ops.OPS}
    return st.fixed_dictionaries({
        "spec": specs.model_spec(max_mets=5, max_rxns=6, max_genes=6, families=("sparse", "pathway", "degenerate"), groups=True),
        "path": st.sampled_from(build.BUILD_PATHS),
        "ops": ops.history_strategy(max_ops, None, weights, block_weight=2),
    })


def check_case(case, ctx):
    build.reset_globals()
    model = build.build_model(case["spec"], case["path"])
    world = ops.World(model, known=ctx.known)
    classes = set()
    stack = []  # (model, snapshot, ops-inside counter)
    nontrivial = {"v": False}

    def on_step(w, op, out):
        name = op["op"]
        if name == "copy" and out == "ok":
            # contexts stay with the original model; this check follows the copy only
            stack.clear()
            return
        if name == "merge" and out == "ok" and w.retired and w.retired[-1]["how"] == "merge" and w.retired[-1]["model"] is not w.model and not w.depth():
            stack.clear()
        if name == "enter" and out == "ok":
            snap = observe.snapshot(w.model)
            snap["model"]["n_contexts"] -= 1  # taken just after __enter__
            stack.append({"snap": snap, "kinds": set(), "depth": w.depth()})
            return
        if name == "exit":
            if out == "skipped:no-context" or out == "skipped:inside-block":
                return
            if not stack:
                return
            frame = stack.pop()
            how = op.get("_how", "normal")
            classes.add(f"~exit-{how}")
            if out.startswith("raised"):
                raise PropertyViolation("exit-raises", f"__exit__ raised {type(w.last_exception).__name__}: {str(w.last_exception)[:200]} "
                                                       f"after {sorted(frame['kinds'])}")
            after = observe.snapshot(w.model)
            d = observe.diff(observe.reorder_free(frame["snap"]), observe.reorder_free(after), rel=1e-9, limit=5)
            if d:
                first = d[0].split(":")[0].strip("/").split("/")
                area = first[0] if first else "?"
                if area in ("reactions", "metabolites", "genes", "groups") and len(first) >= 3:
                    area += "-" + first[2].split("[")[0]
                raise PropertyViolation(f"not-restored:{area}", f"after leaving the block ({how}; ops inside: {sorted(frame['kinds'])}) the model differs "
                                                                 f"from its state at entry: {d[:4]}")
            observe.audit_crossrefs(w.model, "after-exit")
            if len(frame["kinds"]) >= 2 or frame["depth"] >= 2 or how != "normal":
                nontrivial["v"] = True
            if frame["depth"] >= 2:
                classes.add("~nested")
            return
        if stack and out == "ok":
            for f in stack:
                f["kinds"].add(name)
        classes.add(name)
        if out.startswith("raised"):
            classes.add("~raised")

    world.on_step = on_step
    for op in case["ops"]:
        world.apply(op)
    for sig, n in world.excluded.items():
        ctx.excluded_by(sig, n)
    return {"nontrivial": nontrivial["v"], "classes": sorted(classes)}


def enum_phase(ctx):
    """All ordered pairs of concrete reversible ops inside one block on fixed base models (small scope, complete)."""
    from vfw.props.c01 import ENUM_SPECS

    names = [n for n in ops.OPS if n in ops.REVERSIBLE and n not in ("optimize",)]
    cases_ = (c for k, c in enumerate(ops.pair_cases(1, ENUM_SPECS, names, in_block=True, per_name=ctx.params["per_name"],
                                                     prefixes=ops.ENUM_PREFIXES, length=ctx.params.get("length", 2)))
              if k % ctx.n_shards == ctx.shard)
    done = ctx.run_enumeration(cases_, check_case, "history")
    ctx.exhaustive = bool(done)


def hyp_phase(ctx):
    ctx.run_hypothesis(case_strategy(ctx.params["max_ops"]), check_case, "history", ctx.params["max_examples"])


def phases(tier):
    if tier == "quick":
        return [Phase("hyp", hyp_phase, shards=8, params={"max_examples": 400, "max_ops": 30, "budget_s": 75, "crash_journal": True}),
                Phase("pairs", enum_phase, shards=8, params={"per_name": 2, "budget_s": 75, "crash_journal": True})]
    return [Phase("hyp", hyp_phase, shards=16, params={"max_examples": 1200, "max_ops": 50, "budget_s": 400, "crash_journal": True}),
            Phase("pairs", enum_phase, shards=16, params={"per_name": 3, "budget_s": 300, "crash_journal": True}),
            Phase("triples", enum_phase, shards=16, params={"per_name": 1, "length": 3, "budget_s": 300, "crash_journal": True})]


CHECKS = {"history": check_case}
