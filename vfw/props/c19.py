"""C19 - blocked-reaction and consistency analyses (find_blocked_reactions, fastcc) agree with the true flux ranges."""
from __future__ import annotations

import copy

from hypothesis import strategies as st

from vfw import build, gprtree, observe, oracles, specs
from vfw.engine import Phase, PropertyViolation

PROPERTY_ID = "C19"
RULE = (
    "Generator: ModelSpecs (<=4 metabolites x <=6 reactions from the pathway/sparse/degenerate families, every bound "
    "pair contains 0 and is finite, first metabolite in compartment 'e', 0-3 objective coefficients incl. negative "
    "weights and reversible objective reactions, max/min, glpk and glpk_exact) extended by 0-2 motifs (dead-end branch "
    "of length 1-2, detour through a new metabolite, isolated two-reaction cycle with compatible or incompatible "
    "directions, parallel copy of a reaction) and with boundary reactions (exchanges of 'e' metabolites as well as "
    "sinks/demands of internal ones) closed on the uptake side or completely at random. find_blocked_reactions: reaction_list None / objects / ids / mixed (subset, permuted) x open_exchanges x "
    "processes 1/2, default zero_cutoff. fastcc: default flux_threshold / zero_cutoff, reactions with gene rules over "
    "<=3 genes. Oracle: exact rational FVA without any objective row (2 exact LPs per reaction; exchanges = boundary "
    "reactions of an 'e' metabolite widened to [min(lb,-1000), max(ub,1000)] when open_exchanges); blocked = exact "
    "range {0}. find_blocked_reactions must return exactly the blocked members of the list, each once, and leave the "
    "model unchanged. fastcc must return a model with exactly the unblocked reactions, each with the spec's "
    "stoichiometry, bounds and rule truth table, no reaction blocked in the returned network (exact oracle on the "
    "returned model), metabolites/genes = those still used, input model unchanged. Non-trivial: the analysed network "
    "has both a blocked and an unblocked reaction and at least one reversible reaction."
)
ASSUMPTIONS = [
    "Exchange reactions are identified independently as boundary reactions (one metabolite) whose metabolite lies in the "
    "only compartment with an external-sounding name ('e'); ids and annotations that would trigger the other heuristics "
    "of model.exchanges are not generated.",
    "Thresholds: a reaction whose exact largest |flux| lies in (0, 1e-5) (100 x the default cutoff 1e-7) is counted "
    "undetermined and not compared; with the generated integer/half-integer data such values do not occur in practice.",
    "find_blocked_reactions may return identifiers or Reaction objects (docstring and annotation disagree); order is not compared.",
    "Metabolites that no reaction of the input uses may or may not survive fastcc (not stated).",
]
DEAD_BAND = 1e-5

SIG_IDS = "blocked-id-strings"
SIG_OBJ = "blocked-objective-row"
SIG_FASTCC = "fastcc-omits-reversible"


# ------------------------------------------------------------------------------------------
# generator
# ------------------------------------------------------------------------------------------
def _met(mid, comp="c"):
    return {"id": mid, "compartment": comp, "formula": None, "charge": None, "name": "", "notes": {}, "annotation": {}}


def _rxn(rid, mets, lb, ub, gpr=None):
    return {"id": rid, "mets": mets, "lb": lb, "ub": ub, "gpr": gpr, "name": "", "subsystem": "", "notes": {}, "annotation": {}}


MOTIF_BOUNDS = [(0, 1000), (0, 1000), (-1000, 1000), (-1000, 1000), (-10, 10), (0, 10), (-1000, 0), (-5, 0), (0, 0)]
MOTIFS = ["dead-end", "dead-end-2", "detour", "iso-cycle", "iso-cycle", "parallel"]
GENE_POOL = ["g0", "g1", "g2"]


def is_boundary(r):
    return len([c for c in r["mets"].values() if c != 0]) == 1


def exchange_ids(spec):
    """Boundary reactions of a metabolite in compartment 'e' (independent of model.exchanges)."""
    comp = {m["id"]: m["compartment"] for m in spec["mets"]}
    out = []
    for r in spec["rxns"]:
        nz = [m for m, c in r["mets"].items() if c != 0]
        if len(nz) == 1 and comp[nz[0]] == "e":
            out.append(r["id"])
    return out


@st.composite
def network(draw, gprs: bool):
    spec = draw(specs.model_spec(max_mets=4, max_rxns=6, min_rxns=1, max_genes=3, min_genes=1 if gprs else 0,
                                 families=("pathway", "pathway", "sparse", "degenerate"), palette="zero", gprs=gprs,
                                 objective="any", exchange_rich=True))
    spec = copy.deepcopy(spec)
    mets, rxns = spec["mets"], spec["rxns"]
    labels = []

    def new_met():
        m = _met(f"M{len(mets)}")
        mets.append(m)
        return m["id"]

    def new_rxn(stoich, lb, ub):
        gpr = draw(gprtree.opt_trees(GENE_POOL)) if gprs else None
        r = _rxn(f"R{len(rxns)}", stoich, lb, ub, gpr)
        rxns.append(r)
        return r

    for motif in draw(st.lists(st.sampled_from(MOTIFS), max_size=2)):
        base = [m["id"] for m in mets]
        if motif in ("dead-end", "dead-end-2") and base:
            src = draw(st.sampled_from(base))
            d = new_met()
            new_rxn({src: -1, d: draw(st.sampled_from([1, 1, 2]))}, *draw(st.sampled_from(MOTIF_BOUNDS)))
            if motif == "dead-end-2":
                d2 = new_met()
                new_rxn({d: -1, d2: 1}, *draw(st.sampled_from(MOTIF_BOUNDS)))
        elif motif == "detour" and len(base) >= 2:
            a, b = draw(st.lists(st.sampled_from(base), min_size=2, max_size=2, unique=True))
            x = new_met()
            new_rxn({a: -1, x: 1}, *draw(st.sampled_from(MOTIF_BOUNDS)))
            new_rxn({x: -1, b: 1}, *draw(st.sampled_from(MOTIF_BOUNDS)))
        elif motif == "iso-cycle":
            c1, c2 = new_met(), new_met()
            new_rxn({c1: -1, c2: 1}, *draw(st.sampled_from(MOTIF_BOUNDS)))
            new_rxn({c2: -1, c1: 1}, *draw(st.sampled_from(MOTIF_BOUNDS)))
        elif motif == "parallel" and rxns:
            src = draw(st.sampled_from(rxns))
            new_rxn(dict(src["mets"]), *draw(st.sampled_from(MOTIF_BOUNDS)))
        else:
            continue
        labels.append(f"motif-{motif}")
    # close some boundary reactions (exchanges = the medium, and sinks/demands of internal metabolites, which
    # open_exchanges must leave alone), so that open_exchanges matters
    comp = {m["id"]: m["compartment"] for m in mets}
    for r in rxns:
        nz = [(m, c) for m, c in r["mets"].items() if c != 0]
        if len(nz) == 1:
            kind = "exchange" if comp[nz[0][0]] == "e" else "sink"
            how = draw(st.sampled_from(["keep", "keep", "keep", "no-uptake", "closed"]))
            if how == "closed":
                r["lb"], r["ub"] = 0, 0
            elif how == "no-uptake":
                if nz[0][1] < 0:
                    r["lb"] = 0
                else:
                    r["ub"] = 0
            if how != "keep":
                labels.append(f"{kind}-{how}")
    used = sorted(set().union(*[gprtree.leaves(r["gpr"]) for r in rxns]) if rxns else set())
    spec["genes"] = [{"id": g, "name": "", "notes": {}, "annotation": {}} for g in used]
    return spec, sorted(set(labels))


@st.composite
def blocked_cases(draw):
    spec, labels = draw(network(gprs=False))
    n = len(spec["rxns"])
    return {
        "what": "blocked",
        "spec": spec,
        "labels": labels,
        "path": draw(st.sampled_from(build.BUILD_PATHS_LP)),
        "list_mode": draw(st.sampled_from(["none", "none", "objs", "objs", "ids", "mixed", "dictlist"])),
        "sel": draw(st.lists(st.integers(0, n - 1), min_size=1, max_size=n, unique=True)),
        "open_exchanges": draw(st.booleans()),
        "processes": draw(st.sampled_from([1, 1, 1, 1, 1, 2])),
        # what happened to the model object before the call: the solver may hold a solution of an earlier, wider problem
        "pre": draw(st.sampled_from(["none", "none", "optimize_then_knock", "optimize_then_knock", "open_first", "fva_first"])),
        "pre_k": draw(st.integers(0, 20)),
    }


@st.composite
def fastcc_cases(draw):
    spec, labels = draw(network(gprs=True))
    return {"what": "fastcc", "spec": spec, "labels": labels, "path": draw(st.sampled_from(build.BUILD_PATHS_LP))}


# ------------------------------------------------------------------------------------------
# oracle helpers
# ------------------------------------------------------------------------------------------
def _v(bucket, msg):
    raise PropertyViolation(bucket, msg)


def widened(spec, ids):
    """The spec with the bounds of `ids` opened the way the documentation of open_exchanges describes."""
    if not ids:
        return spec
    ids = set(ids)
    s = dict(spec)
    s["rxns"] = [dict(r, lb=min(r["lb"], -1000), ub=max(r["ub"], 1000)) if r["id"] in ids else r for r in spec["rxns"]]
    return s


def exact_ranges(spec, rids, objective_row=False):
    """{rid: (lo, hi)} exact flux range over all steady states within the bounds (None = unbounded end)."""
    if not rids:
        return {}
    status, ranges, _ = oracles.fva(spec, rids, fraction=0, objective_row=objective_row)
    if status != "optimal":
        raise RuntimeError(f"oracle: a model whose bounds contain 0 came out {status}")
    return ranges


def classify(ranges):
    """-> (blocked ids, unblocked ids, undetermined ids)"""
    blocked, unblocked, und = [], [], []
    for rid, (lo, hi) in ranges.items():
        if lo == 0 and hi == 0:
            blocked.append(rid)
            continue
        big = None if (lo is None or hi is None) else max(abs(lo), abs(hi))
        if big is not None and big < DEAD_BAND:
            und.append(rid)
        else:
            unblocked.append(rid)
    return blocked, unblocked, und


def cross_check(spec, rids, open_ids, blocked_from_ranges):
    """The blocked set derived from the exact ranges must be the one oracles.blocked computes (harness self-check;
    all generated bounds lie within +-1000, so 'widen' and 'set to +-1000' coincide)."""
    ref = oracles.blocked(spec, rids, open_ids)
    if ref is None or sorted(ref) != sorted(blocked_from_ranges):
        raise RuntimeError(f"oracle disagreement: blocked() = {ref}, from exact ranges = {sorted(blocked_from_ranges)}")


def fmt_range(rg):
    lo, hi = rg
    f = lambda x: "inf" if x is None else (str(x) if x.denominator == 1 else f"{float(x):.6g}")  # noqa: E731
    return f"[{f(lo)}, {f(hi)}]"


def reversible(r):
    return r["lb"] < 0 < r["ub"]


def network_classes(spec, blocked_all, unblocked_all):
    cl = []
    cl.append("net-mixed" if blocked_all and unblocked_all else ("net-all-blocked" if blocked_all else "net-none-blocked"))
    rx = {r["id"]: r for r in spec["rxns"]}
    if any(reversible(r) for r in spec["rxns"]):
        cl.append("has-reversible")
    if any(reversible(rx[r]) for r in blocked_all):
        cl.append("blocked-reversible")
    if any(reversible(rx[r]) for r in unblocked_all):
        cl.append("unblocked-reversible")
    if any(not reversible(rx[r]) for r in unblocked_all):
        cl.append("unblocked-irreversible")
    if any(not reversible(rx[r]) and (rx[r]["lb"], rx[r]["ub"]) != (0, 0) for r in blocked_all):
        cl.append("blocked-irreversible-open-bounds")
    obj = {k: c for k, c in (spec.get("objective") or {}).items() if c != 0}
    if any(c < 0 for c in obj.values()):
        cl.append("objective-negative-weight")
    if any(reversible(rx[k]) for k in obj):
        cl.append("objective-reversible-reaction")
    if not obj:
        cl.append("objective-empty")
    return cl


# ------------------------------------------------------------------------------------------
# find_blocked_reactions
# ------------------------------------------------------------------------------------------
def check_blocked(case, ctx):
    from cobra.flux_analysis import find_blocked_reactions

    build.reset_globals()
    spec = case["spec"]
    model = build.build_model(spec, case["path"])
    rids_all = [r["id"] for r in spec["rxns"]]
    pre = case.get("pre", "none")
    if pre == "optimize_then_knock" and rids_all:
        import copy as _copy

        try:
            model.optimize()
        except Exception:  # noqa: BLE001 - an unbounded objective: the history still happened
            pass
        rid = rids_all[case.get("pre_k", 0) % len(rids_all)]
        model.reactions.get_by_id(rid).knock_out()
        spec = _copy.deepcopy(spec)
        for r in spec["rxns"]:
            if r["id"] == rid:
                r["lb"], r["ub"] = 0, 0
    elif pre == "open_first":
        try:
            find_blocked_reactions(model, open_exchanges=True)
        except Exception:  # noqa: BLE001
            pass
    elif pre == "fva_first":
        from cobra.flux_analysis import flux_variability_analysis

        try:
            flux_variability_analysis(model, fraction_of_optimum=0.5)
        except Exception:  # noqa: BLE001
            pass
    mode = case["list_mode"]
    want_ids = rids_all if mode == "none" else [rids_all[i] for i in case["sel"] if i < len(rids_all)]
    if mode in ("ids", "mixed") and SIG_IDS in ctx.known:
        # known finding: id strings crash; steer around it by passing the same reactions as objects
        ctx.excluded_by(SIG_IDS)
        mode = "objs"
    classes = list(case.get("labels", ())) + [f"blocked:pre-{pre}", f"blocked:list-{mode}", f"blocked:proc-{case['processes']}",
                                              f"blocked:open-{case['open_exchanges']}", f"solver-{spec['solver']}"]
    if mode == "none":
        arg = None
    elif mode == "objs":
        arg = [model.reactions.get_by_id(r) for r in want_ids]
    elif mode == "dictlist":
        from cobra import DictList

        arg = DictList(model.reactions.get_by_id(r) for r in dict.fromkeys(want_ids))
    elif mode == "ids":
        arg = list(want_ids)
    else:
        arg = [r if k % 2 == 0 else model.reactions.get_by_id(r) for k, r in enumerate(want_ids)]

    ex = exchange_ids(spec) if case["open_exchanges"] else []
    spec_o = widened(spec, ex)
    ranges_all = exact_ranges(spec_o, rids_all)
    blocked_all, unblocked_all, und_all = classify(ranges_all)
    cross_check(spec, rids_all, ex, blocked_all)
    classes += network_classes(spec_o, blocked_all, unblocked_all)
    if case["open_exchanges"]:
        closed_blocked, _, _ = classify(exact_ranges(spec, rids_all))
        classes.append("blocked:opening-changes-set" if set(closed_blocked) != set(blocked_all) else "blocked:opening-no-effect")

    before = observe.snapshot(model)
    try:
        got = find_blocked_reactions(model, reaction_list=arg, open_exchanges=case["open_exchanges"], processes=case["processes"])
    except Exception as e:  # noqa: BLE001 - nothing is documented to raise on these inputs
        d = observe.diff(before, observe.snapshot(model), limit=3)
        tail = f"; the model was left changed: {d}" if d else ""
        if mode in ("ids", "mixed") and isinstance(e, AttributeError):
            _v("blocked-crash-id-strings", f"find_blocked_reactions(reaction_list={arg!r}) raised {type(e).__name__}: {str(e)[:160]} "
                                           f"although reaction_list is documented as 'list of cobra.Reaction or str'{tail}")
        _v("blocked-crash", f"find_blocked_reactions(reaction_list={arg!r}, open_exchanges={case['open_exchanges']}, "
                            f"processes={case['processes']}) raised {type(e).__name__}: {str(e)[:200]}{tail}")
    d = observe.diff(before, observe.snapshot(model), limit=4)
    if d:
        _v("blocked-model-changed", f"find_blocked_reactions(open_exchanges={case['open_exchanges']}) left the model changed: {d}")

    got_ids = [getattr(x, "id", x) for x in got]
    if len(set(got_ids)) != len(got_ids):
        _v("blocked-duplicate", f"the result lists a reaction twice: {got_ids}")
    stray = [r for r in got_ids if r not in want_ids]
    if stray:
        _v("blocked-not-requested", f"result contains {stray} which are not in the requested list {want_ids}")

    exact_blocked = {r for r in want_ids if r in set(blocked_all)}
    und = {r for r in want_ids if r in set(und_all)}
    got_set = set(got_ids)
    spurious = sorted((got_set - exact_blocked) - und)
    missed = sorted((exact_blocked - got_set) - und)
    if spurious or missed:
        # is it the known deviant form: the flux ranges under the side constraint 'objective >= 0' (max) / '<= 0' (min)?
        dev_blocked, _, _ = classify(exact_ranges(spec_o, want_ids, objective_row=True))
        objective_explains = got_set - und == set(dev_blocked) - und
        if objective_explains and SIG_OBJ in ctx.known:
            ctx.excluded_by(SIG_OBJ)
            classes.append("blocked:objective-row-matters")
        else:
            rid = (spurious or missed)[0]
            what = "reported blocked" if spurious else "not reported"
            msg = (f"{rid} is {what} but its exact flux range over all steady states is {fmt_range(ranges_all[rid])}; "
                   f"returned {sorted(got_ids)}, exact blocked set of the requested list {sorted(exact_blocked)} "
                   f"(open_exchanges={case['open_exchanges']}, exchanges={ex}, objective={spec['objective']} {spec['direction']})")
            if objective_explains:
                _v("blocked-objective-dependent", msg + "; the returned set is the blocked set under the extra constraint "
                                                        f"objective {'>=' if spec['direction'] == 'max' else '<='} 0")
            _v("blocked-spurious" if spurious else "blocked-missed", msg)
    else:
        classes.append("blocked:exact-set")
    nontrivial = bool(blocked_all) and bool(unblocked_all) and any(reversible(r) for r in spec_o["rxns"])
    return {"nontrivial": nontrivial, "classes": classes, "undetermined": len(und)}


# ------------------------------------------------------------------------------------------
# fastcc
# ------------------------------------------------------------------------------------------
def result_spec(model):
    """Pure-data flux problem of a cobra model as it presents itself through the public API."""
    return {
        "mets": [{"id": m.id} for m in model.metabolites],
        "rxns": [{"id": r.id, "mets": {m.id: c for m, c in r.metabolites.items()}, "lb": r.lower_bound, "ub": r.upper_bound}
                 for r in model.reactions],
        "objective": {}, "direction": "max", "cons": [],
    }


def check_fastcc(case, ctx):
    from cobra.flux_analysis import fastcc

    build.reset_globals()
    spec = case["spec"]
    model = build.build_model(spec, case["path"])
    rids_all = [r["id"] for r in spec["rxns"]]
    rx = {r["id"]: r for r in spec["rxns"]}
    classes = list(case.get("labels", ())) + ["fastcc", f"solver-{spec['solver']}"]
    ranges = exact_ranges(spec, rids_all)
    blocked_all, unblocked_all, und = classify(ranges)
    cross_check(spec, rids_all, (), blocked_all)
    classes += network_classes(spec, blocked_all, unblocked_all)
    nontrivial = bool(blocked_all) and bool(unblocked_all) and any(reversible(r) for r in spec["rxns"])
    if und:
        return {"nontrivial": False, "classes": classes + ["fastcc:dead-band-skip"], "undetermined": len(und)}

    before = observe.snapshot(model)
    try:
        result = fastcc(model)
    except Exception as e:  # noqa: BLE001 - nothing is documented to raise
        _v("fastcc-crash", f"fastcc raised {type(e).__name__}: {str(e)[:200]} (exact unblocked set {unblocked_all})")
    d = observe.diff(before, observe.snapshot(model), limit=4)
    if d:
        _v("fastcc-input-changed", f"fastcc left its input model changed: {d}")
    if result is model:
        _v("fastcc-same-object", "fastcc returned the input model object itself")

    kept = [r.id for r in result.reactions]
    if len(set(kept)) != len(kept):
        _v("fastcc-duplicate", f"the returned model lists a reaction twice: {kept}")
    foreign = [r for r in kept if r not in rx]
    if foreign:
        _v("fastcc-foreign-reaction", f"the returned model contains {foreign} which the input does not have")
    kept_blocked = [r for r in kept if r in set(blocked_all)]
    if kept_blocked:
        rid = kept_blocked[0]
        _v("fastcc-keeps-blocked", f"the returned model keeps {rid} whose exact flux range is {fmt_range(ranges[rid])} "
                                   f"(bounds {(rx[rid]['lb'], rx[rid]['ub'])}); kept {kept}, exact unblocked set {unblocked_all}")
    dropped = [r for r in unblocked_all if r not in set(kept)]
    dropped_irr = [r for r in dropped if not reversible(rx[r])]
    if dropped_irr:
        rid = dropped_irr[0]
        _v("fastcc-drops-unblocked-irreversible",
           f"the returned model lacks the irreversible reaction {rid} (bounds {(rx[rid]['lb'], rx[rid]['ub'])}) whose exact flux range is "
           f"{fmt_range(ranges[rid])}; kept {kept}, exact unblocked set {unblocked_all}")
    if dropped:
        if SIG_FASTCC in ctx.known:
            ctx.excluded_by(SIG_FASTCC)
            classes.append("fastcc:dropped-reversible")
        else:
            rid = dropped[0]
            _v("fastcc-drops-unblocked-reversible",
               f"the returned model lacks the reversible reaction {rid} (bounds {(rx[rid]['lb'], rx[rid]['ub'])}) whose exact flux range is "
               f"{fmt_range(ranges[rid])}; kept {kept}, exact unblocked set {unblocked_all}")
    else:
        classes.append("fastcc:exact-set")

    # every kept reaction is the input's reaction
    for r in result.reactions:
        want = rx[r.id]
        got_mets = {m.id: c for m, c in r.metabolites.items()}
        want_mets = {m: c for m, c in want["mets"].items() if c != 0}
        if got_mets != want_mets:
            _v("fastcc-reaction-changed", f"{r.id}: stoichiometry {got_mets} in the returned model but {want_mets} in the input")
        if (r.lower_bound, r.upper_bound) != (want["lb"], want["ub"]):
            _v("fastcc-reaction-changed", f"{r.id}: bounds {(r.lower_bound, r.upper_bound)} in the returned model but {(want['lb'], want['ub'])} in the input")
        tab = observe.rule_table(r)
        want_genes = sorted(gprtree.leaves(want["gpr"]))
        if tab["genes"] != want_genes or tab["table"] != gprtree.table(want["gpr"], want_genes):
            _v("fastcc-reaction-changed", f"{r.id}: gene rule {r.gene_reaction_rule!r} in the returned model differs from the input rule "
                                          f"{gprtree.render(want['gpr'])!r} (genes {tab['genes']} vs {want_genes})")
        if sorted(g.id for g in r.genes) != want_genes:
            _v("fastcc-reaction-changed", f"{r.id}: genes {sorted(g.id for g in r.genes)} but the rule has {want_genes}")
    # metabolites / genes still used
    used_m = {m for rid in kept for m, c in rx[rid]["mets"].items() if c != 0}
    never_used = {m["id"] for m in spec["mets"]} - {m for r in spec["rxns"] for m, c in r["mets"].items() if c != 0}
    got_m = {m.id for m in result.metabolites}
    if not (used_m <= got_m <= used_m | never_used):
        _v("fastcc-metabolites", f"metabolites of the returned model {sorted(got_m)} but its reactions use {sorted(used_m)} "
                                 f"(metabolites without any reaction in the input: {sorted(never_used)})")
    used_g = set().union(*[gprtree.leaves(rx[rid]["gpr"]) for rid in kept]) if kept else set()
    got_g = {g.id for g in result.genes}
    if got_g != used_g:
        _v("fastcc-genes", f"genes of the returned model {sorted(got_g)} but its rules use {sorted(used_g)}")
    observe.audit_crossrefs(result, where="fastcc-result")
    # the returned network is consistent in itself (exact oracle on what was returned)
    if not dropped:
        rs = result_spec(result)
        still = oracles.blocked(rs, [r["id"] for r in rs["rxns"]])
        if still:
            _v("fastcc-result-blocked", f"reactions {still} are blocked inside the returned model (reactions {kept})")
    return {"nontrivial": nontrivial, "classes": classes}


def check_case(case, ctx):
    if case["what"] == "blocked":
        return check_blocked(case, ctx)
    return check_fastcc(case, ctx)


# ------------------------------------------------------------------------------------------
# phases
# ------------------------------------------------------------------------------------------
def blocked_phase(ctx):
    ctx.run_hypothesis(blocked_cases(), check_case, "c19", ctx.params["max_examples"], max_rounds=6)


def fastcc_phase(ctx):
    ctx.run_hypothesis(fastcc_cases(), check_case, "c19", ctx.params["max_examples"], max_rounds=6, seed_extra=5)


def phases(tier):
    # the engine runs the phases one after the other, so each may use all processes of the tier
    if tier == "quick":
        return [Phase("blocked", blocked_phase, shards=8, params={"max_examples": 200, "budget_s": 27}),
                Phase("fastcc", fastcc_phase, shards=8, params={"max_examples": 150, "budget_s": 25})]
    return [Phase("blocked", blocked_phase, shards=16, params={"max_examples": 3000, "budget_s": 250}),
            Phase("fastcc", fastcc_phase, shards=16, params={"max_examples": 2000, "budget_s": 250})]


CHECKS = {"c19": check_case}
