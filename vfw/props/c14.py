"""C14 - results do not depend on process count, scheduling or item order."""
from __future__ import annotations

import math
import multiprocessing

from hypothesis import strategies as st

from vfw import build, gprtree, observe, oracles, sched, specs
from vfw.engine import Phase, PropertyViolation

PROPERTY_ID = "C14"
RULE = (
    "Generator: feasible ModelSpecs (3-5 metabolites x 4-9 reactions x 2-6 genes, pathway/sparse, finite bounds) x "
    "function (FVA - default, loopless on networks without possible internal cycles, fraction_of_optimum, pfba_factor - , find_blocked_reactions, find_essential_genes/reactions, single/double gene/reaction deletion) x "
    "schedule: processes in 2..min(6, items), a permutation of the requested items, per-item delays 0-25 ms drawn from "
    "the case, chunk size 1..4 (vfw/sched.py patches the task function and the pool from the parent; forked workers "
    "inherit it). OptGP sampling with 2-3 processes through sample() and through one sampler object asked several times for counts that are no multiple of the process count (homogeneous regions and regions with a forced flux). Oracle (metamorphic + reference): results under the schedule are "
    "equal item by item (rel 1e-6) to the processes=1 / unpermuted / undelayed run, to asking for each item alone and "
    "to the exact oracle (exact FVA ranges; exact LP of the knocked-out spec); row/label sets identical; no child "
    "process outlives the call. Sampling: every sample feasible by an independent numpy check; two runs with the "
    "same seed and process count give identical frames. Non-trivial: >=2 processes actually used, some worker gets "
    ">=2 tasks, arrival order differs from submission order, and item results are not all equal."
)
ASSUMPTIONS = [
    "The harness owns per-task delays, chunking, item order and process count, not the kernel scheduler.",
    "Start method fork (Linux default): the parent-side wrapper is inherited by the workers.",
]
TOL = 1e-6


def _decycle(spec):
    """Make the network free of possible internal cycles (loopless FVA is exact, and equal to plain FVA, only there) and
    let every internal reaction admit zero flux: internal reactions that are not in the objective are dropped from the
    end of the list until no admissible sign pattern contains a cycle. Pure function of the spec."""
    from vfw.props import c05

    for r in spec["rxns"]:
        if r["id"] in oracles.internal_ids(spec) and not (r["lb"] <= 0 <= r["ub"]):
            r["lb"], r["ub"] = (0, r["ub"]) if r["lb"] > 0 else (r["lb"], 0)
    while c05._has_any_cycle(spec):
        internal = [i for i in oracles.internal_ids(spec) if i not in spec["objective"]] or oracles.internal_ids(spec)
        victim = internal[-1]
        spec["rxns"] = [r for r in spec["rxns"] if r["id"] != victim]
        spec["objective"].pop(victim, None)
        for g in spec.get("groups", []):
            g["members"] = [m for m in g.get("members", []) if list(m) != ["r", victim]]


# options that add per-task state to the FVA workers (since seeded change C14-5): the loopless post-processing, the
# objective-fraction row, the total-flux cap
@st.composite
def cases(draw):
    fn = draw(st.sampled_from(["fva", "fva", "fva", "blocked", "essential_genes", "essential_rxns", "single_gene", "single_rxn", "double_gene", "double_rxn", "optgp"]))
    spec = draw(specs.model_spec(max_mets=5, min_mets=3, max_rxns=9, min_rxns=4, max_genes=6, min_genes=2, families=("pathway", "pathway", "sparse"),
                                 palette="finite0" if fn in ("blocked", "optgp") else "finite", objective="nonneg", solvers=("glpk",), directions=("max",)))
    fva_opts = draw(st.sampled_from([{}, {}, {"loopless": True}, {"loopless": True}, {"loopless": True}, {"fraction_of_optimum": 0.5},
                                     {"pfba_factor": 1.5}, {"fraction_of_optimum": 0.9, "pfba_factor": 1.1}]))
    if fn == "fva" and fva_opts.get("loopless"):
        _decycle(spec)
    return {
        "spec": spec,
        "fn": fn,
        "fva_opts": fva_opts,
        "processes": draw(st.integers(2, 6)),
        "perm": draw(st.permutations(list(range(12)))),
        "delays": draw(st.lists(st.sampled_from([0, 0, 3, 8, 15, 25]), min_size=3, max_size=7)),
        "chunk": draw(st.sampled_from([None, 1, 1, 2, 3, 4])),
        "seed": draw(st.integers(0, 5000)),
        "repeat": draw(st.sampled_from([0, 0, 0, 1, 2])),  # how many items of the request are named twice
        "edit": draw(st.one_of(st.none(), st.tuples(st.integers(0, 20), st.sampled_from([(0, 0), (0, 1), (0, 2), (-5, 5), (0, 100), (1, 10)])))),
    }


def _v(bucket, msg):
    raise PropertyViolation(bucket, msg)


def close(a, b):
    if isinstance(a, float) and isinstance(b, float) and math.isnan(a) and math.isnan(b):
        return True
    return abs(a - b) <= TOL * max(1.0, abs(b))


def knocked_reactions(spec, genes):
    genes = set(genes)
    return [r["id"] for r in spec["rxns"] if r["gpr"] is not None and gprtree.leaves(r["gpr"]) & genes and not gprtree.evaluate(r["gpr"], genes)]


def deletion_rows(df):
    return {"|".join(sorted(ids)): (float(g), s) for ids, g, s in zip(df["ids"], df["growth"], df["status"])}


def check_case(case, ctx, model=None):
    import cobra.flux_analysis as fa
    from cobra.flux_analysis import deletion, variability

    spec = case["spec"]
    fn = case["fn"]
    if model is None:
        build.reset_globals()
        model = build.build_model(spec, "bulk")
    rids = [r["id"] for r in spec["rxns"]]
    gids = [g["id"] for g in spec["genes"]]
    wt, _ = oracles.fba(spec)
    classes = [f"fn-{fn}", f"proc-{case['processes']}", f"chunk-{case['chunk']}"]
    if wt.status != "optimal":
        return {"nontrivial": False, "classes": classes + ["wt-" + wt.status]}
    record = {}
    before = observe.snapshot(model)

    def perm(items, repeat=0):
        order = [i for i in case["perm"] if i < len(items)]
        out = [items[i] for i in order]
        return out + out[:repeat]  # a request may name an item more than once (e.g. two overlapping lists)

    # ---------------- sampling ----------------------------------------------------------------
    if fn == "optgp":
        import numpy as np

        from cobra.sampling import sample

        p = 2 + case["processes"] % 2
        try:
            a = sample(model, 6, method="optgp", thinning=3, processes=p, seed=case["seed"])
            b = sample(model, 6, method="optgp", thinning=3, processes=p, seed=case["seed"])
        except ValueError as e:
            return {"nontrivial": False, "classes": classes + ["sampler-refused"]}
        if not a.equals(b):
            _v("optgp:not-reproducible", f"two optgp runs with seed {case['seed']} and {p} processes differ")
        S = np.array([[r["mets"].get(m["id"], 0) for r in spec["rxns"]] for m in spec["mets"]], dtype=float)
        lb = np.array([r["lb"] for r in spec["rxns"]], dtype=float)
        ub = np.array([r["ub"] for r in spec["rxns"]], dtype=float)
        V = a[rids].to_numpy()
        if V.shape[0] and (np.abs(S @ V.T).max() > 1e-6 * max(1.0, np.abs(ub).max()) or (V < lb - 1e-6).any() or (V > ub + 1e-6).any()):
            _v("optgp:infeasible-sample", "a parallel optgp sample violates steady state or bounds")
        if multiprocessing.active_children():
            _v("children-left", f"child processes outlive the call: {multiprocessing.active_children()}")
        # the sampler object: consecutive sample()/batch() calls with counts that are no multiple of the process count, on
        # the model as it is or (odd seeds) with one reaction forced to carry flux, i.e. a region without the origin
        # (since seeded change C14-6: state carried from one parallel call to the next)
        import copy as _copy

        from cobra.sampling import OptGPSampler

        spec2, model2 = spec, model
        if case["seed"] % 2:
            _, ranges, _ = oracles.fva(spec, rids, objective_row=False)
            cand = [rid for rid in rids if ranges[rid][1] is not None and ranges[rid][1] > 0]
            if cand:
                rid = cand[case["seed"] % len(cand)]
                spec2 = _copy.deepcopy(spec)
                rx = next(r for r in spec2["rxns"] if r["id"] == rid)
                rx["lb"] = max(rx["lb"], float(ranges[rid][1]) / 2)
                model2 = build.build_model(spec2, "bulk")
                classes.append("optgp-forced-flux")
        n1, n2 = 1 + case["seed"] % 5, 1 + (case["seed"] // 5) % 7
        S2 = np.array([[r["mets"].get(m["id"], 0) for r in spec2["rxns"]] for m in spec2["mets"]], dtype=float)
        lb2 = np.array([r["lb"] for r in spec2["rxns"]], dtype=float)
        ub2 = np.array([r["ub"] for r in spec2["rxns"]], dtype=float)

        def sequence():
            smp = OptGPSampler(model2, processes=p, thinning=3, seed=case["seed"])
            return [smp.sample(n1), smp.sample(n2), *smp.batch(n1, 2)]

        try:
            f1 = sequence()
        except ValueError:
            return {"nontrivial": len(a) >= 6, "classes": classes + ["sampler-object-refused"]}
        except Exception as e:  # noqa: BLE001
            _v("optgp:sequence-failed", f"OptGPSampler(processes={p}, seed={case['seed']}): sample({n1}), sample({n2}), batch({n1}, 2) raised "
                                        f"{type(e).__name__}: {str(e)[:150]} on a feasible model with finite bounds")
        f2 = sequence()
        for k, (fr, n) in enumerate(zip(f1, [n1, n2, n1, n1])):
            want = int(math.ceil(n / p) * p)
            if fr.shape[0] != want:
                _v("optgp:rows", f"call #{k} asked for {n} samples with {p} processes: {fr.shape[0]} rows, expected {want}")
            V = fr[rids].to_numpy()
            if (np.abs(S2 @ V.T).max() > 1e-6 * max(1.0, np.abs(ub2).max()) or (V < lb2 - 1e-6).any() or (V > ub2 + 1e-6).any()):
                _v("optgp:infeasible-sample", f"call #{k} of a sampler object ({p} processes, counts {n1}, {n2}, batch {n1}x2): a sample violates "
                                              f"steady state or bounds")
            if not fr.equals(f2[k]):
                _v("optgp:not-reproducible", f"call #{k} of two identical call sequences (seed {case['seed']}, {p} processes) differs")
        classes.append("optgp-sampler-object")
        if multiprocessing.active_children():
            _v("children-left", f"child processes outlive the call: {multiprocessing.active_children()}")
        return {"nontrivial": len(a) >= 6, "classes": classes}

    # ---------------- FVA family ----------------------------------------------------------------
    if fn in ("fva", "blocked"):
        module, task = variability, "_fva_step"
        if fn == "fva":
            items = perm(rids, case.get("repeat", 0))
            if case.get("repeat"):
                classes.append("repeated-item")
            opts = dict(case.get("fva_opts") or {})
            if opts.get("loopless"):
                from vfw.props import c05

                rx = {r["id"]: r for r in spec["rxns"]}
                # loopless FVA is exact (and equal to plain FVA) on networks without possible internal cycles; on cyclic
                # ones it is a heuristic whose result is not uniquely defined (known finding C05 loopless-fva-inexact),
                # and the docstring excludes forced internal fluxes
                if any(not (rx[i]["lb"] <= 0 <= rx[i]["ub"]) for i in oracles.internal_ids(spec)) or c05._has_any_cycle(spec):
                    opts = {}
                    classes.append("loopless-not-applicable")
            if opts.get("fraction_of_optimum", 1) != 1 and wt.value < 0:
                # a fraction below one is only meaningful when the optimum has the sign of the direction (all models here
                # maximise): with a negative optimum "at least 0.9 x optimum" is stricter than the optimum itself
                opts.pop("fraction_of_optimum")
                classes.append("fraction-not-applicable")
            classes.append("fva-opts-" + ("+".join(sorted(opts)) or "default"))
            ref = fa.flux_variability_analysis(model, reaction_list=rids, processes=1, **opts)
            with sched.controlled(module, task, case["delays"], case["chunk"], record):
                got = fa.flux_variability_analysis(model, reaction_list=items, processes=case["processes"], **opts)
            if list(got.index) != items:
                _v("fva:index", f"index {list(got.index)} but requested {items}")
            est, exact, _ = oracles.fva(spec, rids, fraction=opts.get("fraction_of_optimum", 1), pfba_factor=opts.get("pfba_factor"))
            if est != "optimal":  # no exact ranges for this request: the three runs are still compared with each other
                exact = {rid: (None, None) for rid in rids}
                classes.append("fva-no-exact-ranges")
            for pos, rid in enumerate(items):
                alone = fa.flux_variability_analysis(model, reaction_list=[rid], processes=1, **opts)
                for col, k in (("minimum", 0), ("maximum", 1)):
                    g, r_, a_, e_ = float(got[col].iloc[pos]), float(ref.at[rid, col]), float(alone.at[rid, col]), exact[rid][k]
                    if not close(g, r_) or not close(g, a_) or (e_ is not None and not close(g, float(e_))):
                        _v("fva:schedule-dependent", f"{rid} {col}: {g!r} under the schedule (processes={case['processes']}, chunk={case['chunk']}, options {opts}), "
                                                    f"{r_!r} serial, {a_!r} alone, exact {e_}")
            varied = len({(round(float(a), 6), round(float(b), 6)) for a, b in zip(got["minimum"], got["maximum"])}) > 1
        else:
            ref = sorted(fa.find_blocked_reactions(model, processes=1))
            with sched.controlled(module, task, case["delays"], case["chunk"], record):
                got = sorted(set(fa.find_blocked_reactions(model, reaction_list=[model.reactions.get_by_id(r) for r in perm(rids, case.get("repeat", 0))],
                                                           processes=case["processes"])))
            if got != ref:
                _v("blocked:schedule-dependent", f"blocked {got} under the schedule vs {ref} serial")
            # each item alone, and the active ones together: the answer is about the requested reactions only
            for rid in rids:
                alone = sorted(fa.find_blocked_reactions(model, reaction_list=[model.reactions.get_by_id(rid)], processes=1))
                if alone != ([rid] if rid in ref else []):
                    _v("blocked:differs-from-single-item-call", f"{rid} asked alone gives {alone}; in the full search it is {'blocked' if rid in ref else 'not blocked'}")
            active = [rid for rid in rids if rid not in ref]
            if active:
                sub = sorted(fa.find_blocked_reactions(model, reaction_list=[model.reactions.get_by_id(r) for r in active], processes=case["processes"]))
                if sub:
                    _v("blocked:differs-from-single-item-call", f"asking for the unblocked reactions {active} only returns {sub}")
            varied = 0 < len(got) < len(rids)
    # ---------------- deletion family ------------------------------------------------------------
    else:
        entity = "gene" if "gene" in fn else "rxn"
        universe = gids if entity == "gene" else rids
        if len(universe) < 2:
            return {"nontrivial": False, "classes": classes + ["too-few-items"]}
        module = deletion
        task = "_gene_deletion_worker" if entity == "gene" else "_reaction_deletion_worker"
        items = perm(universe)
        if fn.startswith("essential") and abs(float(wt.value)) < 1e-9:
            # default threshold = 1 % of a wild-type optimum of zero: membership is decided by the sign of round-off
            # (-1e-17 < 0), the dead band of section 2.3 covers every item
            return {"nontrivial": False, "classes": classes + ["essential-threshold-at-zero"], "undetermined": 1}
        if fn.startswith("essential"):
            f = fa.find_essential_genes if entity == "gene" else fa.find_essential_reactions
            ref = sorted(x.id for x in f(model, processes=1))
            with sched.controlled(module, task, case["delays"], case["chunk"], record):
                got = sorted(x.id for x in f(model, processes=case["processes"]))
            if got != ref:
                _v("essential:schedule-dependent", f"{f.__name__}: {got} under the schedule vs {ref} serial")
            varied = 0 < len(got) < len(universe)
        else:
            double = fn.startswith("double")
            f = {("gene", False): fa.single_gene_deletion, ("gene", True): fa.double_gene_deletion,
                 ("rxn", False): fa.single_reaction_deletion, ("rxn", True): fa.double_reaction_deletion}[(entity, double)]
            key = "gene_list" if entity == "gene" else "reaction_list"
            if double:
                items = items[:4]
                # two different, overlapping lists (the request is the set of unordered pairs of their product); the order
                # inside each list and the order of the two lists must not matter
                l1, l2 = items[: len(items) // 2 + 1], items[len(items) // 2:]
                if case["processes"] % 2:
                    l1, l2 = items, list(reversed(items))
                ref = deletion_rows(f(model, **{key + "1": sorted(l1), key + "2": sorted(l2)}, processes=1))
                with sched.controlled(module, task, case["delays"], case["chunk"], record):
                    got = deletion_rows(f(model, **{key + "1": l1, key + "2": list(reversed(l2))}, processes=case["processes"]))
                want_keys = {"|".join(sorted({a, b})) for a in l1 for b in l2}
                if set(ref) != want_keys:
                    _v("deletion:row-set", f"serial rows {sorted(ref)} but the product of {sorted(l1)} and {sorted(l2)} is {sorted(want_keys)}")
                swapped = deletion_rows(f(model, **{key + "1": l2, key + "2": l1}, processes=1))
                if set(swapped) != set(ref) or any(not close(swapped[k][0], ref[k][0]) or swapped[k][1] != ref[k][1] for k in ref):
                    _v("deletion:list-order-dependent", f"lists ({l1}, {l2}) give rows {sorted(ref.items())}, swapped they give {sorted(swapped.items())}")
                classes.append("double-two-lists" if set(l1) != set(l2) else "double-same-lists")
            else:
                ref = deletion_rows(f(model, **{key: sorted(items)}, processes=1))
                with sched.controlled(module, task, case["delays"], case["chunk"], record):
                    got = deletion_rows(f(model, **{key: items}, processes=case["processes"]))
            if set(got) != set(ref):
                _v("deletion:row-set", f"rows {sorted(got)} under the schedule vs {sorted(ref)} serial")
            for k, (g, s) in got.items():
                ids = k.split("|")
                rg, rs = ref[k]
                kr = knocked_reactions(spec, ids) if entity == "gene" else ids
                ex, _ = oracles.fba(spec, knocked=kr)
                exv = float(ex.value) if ex.status == "optimal" else float("nan")
                if not close(g, rg) or s != rs or not close(g, exv):
                    _v("deletion:schedule-dependent", f"knock-out {ids}: growth {g!r}/{s} under the schedule (processes={case['processes']}, "
                                                      f"chunk={case['chunk']}), {rg!r}/{rs} serial, exact {exv!r}")
                if not double:
                    alone = deletion_rows(f(model, **{key: ids}, processes=1))[k]
                    if not close(g, alone[0]):
                        _v("deletion:differs-from-single-item-call", f"knock-out {ids}: {g!r} in the batch, {alone[0]!r} when asked alone")
                else:
                    a, b = (ids[0], ids[-1]) if ids[0] in l1 and ids[-1] in l2 else (ids[-1], ids[0])
                    alone = deletion_rows(f(model, **{key + "1": [a], key + "2": [b]}, processes=1))
                    if set(alone) != {k}:
                        _v("deletion:differs-from-single-item-call", f"asking for the pair ([{a}], [{b}]) alone returns rows {sorted(alone)}, expected [{k}]")
                    if not close(g, alone[k][0]):
                        _v("deletion:differs-from-single-item-call", f"knock-out {ids}: {g!r} in the batch, {alone[k][0]!r} when asked alone")
            varied = len({(None if v[0] != v[0] else round(v[0], 6)) for v in got.values()}) > 1
    d = observe.diff(before, observe.snapshot(model), limit=4)
    if d:
        _v("model-changed", f"{fn} under the schedule left the model changed: {d}")
    if multiprocessing.active_children():
        _v("children-left", f"child processes outlive the call: {multiprocessing.active_children()}")
    sub, arr = record.get("submitted", []), record.get("arrived", [])
    used_pool = bool(sub)
    reordered = used_pool and arr != sub[: len(arr)]
    multi_task = used_pool and len(sub) > case["processes"]
    if used_pool:
        classes.append("pool-used")
        classes.append("arrival-reordered" if reordered else "arrival-in-order")
    out = {"nontrivial": used_pool and reordered and multi_task and varied, "classes": classes}
    # the same model object is edited (one bound) and asked again, now serially where it was parallel and the other way
    # round: nothing a call left behind in the process may show up in the next one (since seeded change C14-8)
    if case.get("edit") is not None and not case.get("_second"):
        import copy as _copy

        k, (lb, ub) = case["edit"]
        spec2 = _copy.deepcopy(spec)
        rx = spec2["rxns"][k % len(spec2["rxns"])]
        rx["lb"], rx["ub"] = lb, ub
        model.reactions.get_by_id(rx["id"]).bounds = (rx["lb"], rx["ub"])
        second = check_case({**case, "spec": spec2, "_second": True, "processes": 1 if case["processes"] > 2 else case["processes"]}, ctx, model=model)
        out["classes"] = classes + ["~asked-again-after-an-edit"] + [c for c in second["classes"] if c.startswith("wt-")]
    return out


def hyp_phase(ctx):
    ctx.run_hypothesis(cases(), check_case, "schedule", ctx.params["max_examples"])


def phases(tier):
    if tier == "quick":
        return [Phase("hyp", hyp_phase, shards=4, params={"max_examples": 120, "budget_s": 75})]
    return [Phase("hyp", hyp_phase, shards=16, params={"max_examples": 150, "budget_s": 520}, parallel=4)]


CHECKS = {"schedule": check_case}
