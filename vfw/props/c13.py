"""C13 - analyses leave the model exactly as they found it; repeated calls give the same uniquely defined results."""
from __future__ import annotations

import math

from hypothesis import strategies as st

from vfw import build, observe, oracles, specs
from vfw.engine import Phase, PropertyViolation

PROPERTY_ID = "C13"
RULE = (
    "Generator: ModelSpecs (<=5 metabolites x <=7 reactions x <=4 genes; pathway/sparse/degenerate families incl. "
    "infeasible, unbounded and empty/degenerate models; finite or general bounds; optional user constraints; optional "
    "knocked-out genes) x 3 calls drawn from a table of 30 analyses with generated arguments (optimize, slim_optimize, "
    "FVA with all options, find_blocked_reactions, find_essential_genes/reactions, pfba, linear moma, room (both), "
    "geometric_fba, loopless_solution, single/double gene/reaction deletions (fba, linear moma, linear room), "
    "production_envelope, assess/assess_component/assess_precursors/assess_products, minimal_medium (all options), "
    "gapfill with a generated universal model, fastcc, sample (achr/optgp) and sampler objects, model/metabolite/"
    "reaction summaries with fva) x call site (outside a context; inside a user context with pending changes) x "
    "processes (1, 2). Oracle: full snapshot (content, bounds, objective and direction, raw GLPK by name, gene flags, "
    "context depth) before == after each call whether it returns, reports infeasibility or raises; the uniquely "
    "defined parts of the result of an immediate second call equal the first call's (rel 1e-6); leaving the user "
    "context restores the pre-context snapshot. Non-trivial: the call reached its solve phase on a model with >=3 "
    "reactions; failing calls (exception or non-optimal status) are a counted class."
)
ASSUMPTIONS = [
    "Functions documented to modify the model (add_*, fix_objective_as_constraint, knock-outs, medium setter) are not in the table.",
    "Any exception type is accepted from an analysis; only the model state and the repeatability of results are judged.",
    "ROOM, minimal_medium(minimize_components) and gapfill use the bounds as big-M constants and are only called on models with finite bounds.",
    "Sampling results are random by design: only the model invariance is checked for them.",
]

CALLS = ["optimize", "optimize_sense", "slim", "fva", "fva_loopless", "blocked", "essential_genes", "essential_rxns", "pfba", "moma", "room", "room_linear",
         "geometric", "loopless_solution", "single_gene", "single_rxn", "double_gene", "double_rxn", "single_rxn_moma", "single_gene_room",
         "envelope", "assess", "assess_component", "assess_pp", "minimal_medium", "minimal_medium_mip", "gapfill", "fastcc", "sample",
         "sampler", "summary_model", "summary_met", "summary_rxn", "~edit", "~edit", "~edit", "blocked_after_edit", "blocked_after_edit"]


BIG_M = {"room", "room_linear", "single_gene_room", "minimal_medium_mip", "gapfill"}


@st.composite
def cases(draw):
    pal = draw(st.sampled_from(["finite", "finite", "zero", "general"]))
    spec = draw(specs.model_spec(max_mets=5, max_rxns=7, max_genes=4, families=("pathway", "pathway", "sparse", "degenerate"), palette=pal,
                                 user_cons=1, solvers=("glpk",), exchange_rich=draw(st.booleans())))
    calls = draw(st.lists(st.fixed_dictionaries({
        "name": st.sampled_from(CALLS),
        "i": st.integers(0, 30), "j": st.integers(0, 30),
        "frac": st.sampled_from([1.0, 0.9, 0.5, 0.0]),
        "flag": st.booleans(),
        "processes": st.sampled_from([1, 1, 1, 2]),
        "seed": st.integers(0, 10_000),
    }), min_size=1, max_size=3))
    return {
        "spec": spec,
        "path": draw(st.sampled_from(build.BUILD_PATHS_LP)),
        "calls": calls,
        "context": draw(st.sampled_from(["outside", "outside", "inside"])),
        "ko_genes": draw(st.lists(st.integers(0, 10), max_size=2)),
        "pending": draw(st.lists(st.tuples(st.sampled_from(["knock_out", "bounds", "objective", "direction", "fix_objective"]), st.integers(0, 30)), max_size=2)),
        "fixed": draw(st.sampled_from([None, None, None, "before"])),
        "universal": draw(st.lists(st.tuples(st.integers(0, 4), st.integers(0, 4), st.booleans()), max_size=3)),
    }


def _v(bucket, msg):
    raise PropertyViolation(bucket, msg)


def _frame(df):
    return {str(i): {str(c): (None if (isinstance(v, float) and math.isnan(v)) else v) for c, v in row.items() if not isinstance(v, (set, frozenset))}
            for i, row in df.iterrows()}


def run_call(model, c, case):
    """Runs one analysis. Returns a pure-data summary of the uniquely defined quantities of its result (or None)."""
    import cobra.flux_analysis as fa
    from cobra import Model, Reaction
    from cobra.flux_analysis import gapfilling, reaction as fr
    from cobra.medium import minimal_medium
    from cobra.sampling import ACHRSampler, OptGPSampler, sample

    name = c["name"]
    rx = model.reactions
    if name in BIG_M and any(math.isinf(b) for x in rx for b in x.bounds):
        return None  # these formulations use the bounds as big-M constants: infinite bounds are outside their domain
    r = rx[c["i"] % len(rx)] if len(rx) else None
    r2 = rx[c["j"] % len(rx)] if len(rx) else None
    p = c["processes"]
    if name == "optimize":
        s = model.optimize(raise_error=c["flag"])
        return {"status": s.status, "value": s.objective_value if s.status == "optimal" else None}
    if name == "optimize_sense":
        s = model.optimize(objective_sense="minimize" if c["flag"] else "maximize")
        return {"status": s.status, "value": s.objective_value if s.status == "optimal" else None}
    if name == "slim":
        v = model.slim_optimize(error_value=None if c["flag"] else float("nan"))
        return {"value": None if v != v else v}
    if name == "fva":
        lst = None if c["flag"] or r is None else [r, r2.id] if r is not r2 else [r]
        df = fa.flux_variability_analysis(model, reaction_list=lst, fraction_of_optimum=c["frac"], processes=p,
                                          pfba_factor=1.1 if c["j"] % 3 == 0 else None)
        return _frame(df)
    if name == "fva_loopless":
        df = fa.flux_variability_analysis(model, loopless=True, fraction_of_optimum=c["frac"], processes=1)
        return None  # the loopless heuristic depends on the solver's vertex: not uniquely defined
    if name == "blocked":
        return sorted(fa.find_blocked_reactions(model, open_exchanges=c["flag"], processes=p))
    if name == "blocked_after_edit":
        # an optimisation, then a knock-out of a reaction that carried flux (inside a block of the user, so the model is
        # as before afterwards), then the blocked search: it must answer for the model as it stands, i.e. like the same
        # search on a fresh copy of that state, whose solver holds no earlier solution (since seeded change C13-6)
        sol = model.optimize()
        if sol.status != "optimal":
            return None
        carrying = [x for x in rx if abs(sol.fluxes[x.id]) > 1e-6]
        if not carrying:
            return None
        victim = carrying[c["i"] % len(carrying)]
        with model:
            victim.knock_out()
            try:
                got = sorted(fa.find_blocked_reactions(model, processes=p))
            except Exception:  # noqa: BLE001 - refusals are judged by the plain "blocked" call
                return None
            fresh = model.copy()
        try:
            want = sorted(fa.find_blocked_reactions(fresh, processes=1))
        except Exception:  # noqa: BLE001
            return None
        if got != want:
            _v("blocked:stale-solution", f"after optimize() and {victim.id}.knock_out() the blocked search returns {got}; the same search on a fresh copy of "
                                         f"that very state returns {want}")
        return None  # which reaction is knocked out depends on the vertex of the first optimisation: nothing to compare between calls
    if name == "essential_genes":
        return sorted(g.id for g in fa.find_essential_genes(model, processes=p))
    if name == "essential_rxns":
        return sorted(x.id for x in fa.find_essential_reactions(model, processes=p))
    if name == "pfba":
        s = fa.pfba(model, fraction_of_optimum=c["frac"])
        return {"status": s.status, "value": s.objective_value}
    if name == "moma":
        s = fa.moma(model, solution=None if c["flag"] else model.optimize(), linear=True)
        return {"status": s.status, "value": s.objective_value if s.status == "optimal" else None}
    if name in ("room", "room_linear"):
        s = fa.room(model, solution=None if c["flag"] else model.optimize(), linear=name == "room_linear")
        return {"status": s.status, "value": s.objective_value if s.status == "optimal" else None}
    if name == "geometric":
        s = fa.geometric_fba(model, processes=p)
        return {"status": s.status}
    if name == "loopless_solution":
        s = fa.loopless_solution(model)
        return {"status": s.status, "value": s.objective_value}
    if name in ("single_gene", "single_rxn", "double_gene", "double_rxn", "single_rxn_moma", "single_gene_room"):
        fn = {"single_gene": fa.single_gene_deletion, "single_rxn": fa.single_reaction_deletion, "double_gene": fa.double_gene_deletion,
              "double_rxn": fa.double_reaction_deletion, "single_rxn_moma": fa.single_reaction_deletion, "single_gene_room": fa.single_gene_deletion}[name]
        kw = {"processes": p}
        if name == "single_rxn_moma":
            kw["method"] = "linear moma"
        if name == "single_gene_room":
            kw["method"] = "linear room"
        df = fn(model, **kw)
        return sorted((sorted(ids), None if g != g else round(g, 6), s) for ids, g, s in zip(df["ids"], df["growth"], df["status"])) if kw.get("method") is None else None
    if name == "envelope":
        if r is None:
            return None
        df = fa.production_envelope(model, reactions=[r], points=4)
        return None
    if name == "assess":
        if r is None:
            return None
        out = fr.assess(model, r if c["flag"] else r.id)
        return out if isinstance(out, bool) else "dict"
    if name == "assess_component":
        if r is None:
            return None
        out = fr.assess_component(model, r, "products" if c["flag"] else "reactants")
        return out if isinstance(out, bool) else "dict"
    if name == "assess_pp":
        if r is None:
            return None
        out = (fr.assess_precursors if c["flag"] else fr.assess_products)(model, r)
        return out if isinstance(out, bool) else "dict"
    if name == "minimal_medium":
        med = minimal_medium(model, min_objective_value=0.1 if c["flag"] else 1.0, exports=c["j"] % 2 == 0, open_exchanges=c["i"] % 3 == 0)
        return None if med is None else round(float(med[med > 0].sum()), 6)
    if name == "minimal_medium_mip":
        med = minimal_medium(model, min_objective_value=0.1, minimize_components=True if c["flag"] else 2)
        if med is None:
            return None
        return int((med > 0).sum()) if med.ndim == 1 else int((med.iloc[:, 0] > 0).sum())
    if name == "gapfill":
        uni = Model("universal")
        mids = [m.id for m in model.metabolites]
        new = []
        for k, (a, b, rev) in enumerate(case["universal"]):
            if not mids or a % len(mids) == b % len(mids):
                continue
            x = Reaction(f"U{k}", lower_bound=-100 if rev else 0, upper_bound=100)
            x.add_metabolites({model.metabolites[a % len(mids)].copy(): -1, model.metabolites[b % len(mids)].copy(): 1})
            new.append(x)
        uni.add_reactions(new)
        # the universal model is a model the analysis takes, too: content, solver and cross references before == after
        # (since seeded change C13-8); both switches are drawn
        ub = observe.snapshot(uni)
        try:
            sol = gapfilling.gapfill(model, uni, demand_reactions=c["flag"], exchange_reactions=bool(c["j"] % 2), lower_bound=0.05)
        finally:
            d = observe.diff(ub, observe.snapshot(uni), limit=4)
            if d:
                _v("gapfill:universal-changed", f"gapfill(demand_reactions={c['flag']}, exchange_reactions={bool(c['j'] % 2)}) left the universal model changed: {d}")
            try:
                observe.audit_crossrefs(uni, "gapfill:universal")
            except PropertyViolation as v:
                _v("gapfill:universal-detached", f"gapfill(demand_reactions={c['flag']}, exchange_reactions={bool(c['j'] % 2)}) broke the cross references of the "
                                                 f"universal model: {v.message}")
        return len(sol[0])
    if name == "fastcc":
        m2 = fa.fastcc(model)
        return None
    if name == "sample":
        sample(model, 5, method="achr" if c["flag"] else "optgp", thinning=2, processes=p, seed=c["seed"])
        return None
    if name == "sampler":
        s = (ACHRSampler if c["flag"] else OptGPSampler)(model, thinning=2, seed=c["seed"])
        s.sample(4)
        return None
    if name == "summary_model":
        s = model.summary(fva=0.9 if c["flag"] else None)
        s.to_string()
        s.to_frame()
        return None
    if name == "summary_met":
        if not len(model.metabolites):
            return None
        s = model.metabolites[c["i"] % len(model.metabolites)].summary(fva=0.9 if c["flag"] else None)
        s.to_string()
        return None
    if name == "summary_rxn":
        if r is None:
            return None
        s = r.summary(fva=0.9 if c["flag"] else None)
        s.to_string()
        return None
    raise AssertionError(name)


def _same(a, b):
    return not observe.diff(a, b, rel=1e-6, limit=2)


def _unbounded_end(spec):
    """Does some reaction have an exactly unbounded flux range (no objective row)?"""
    try:
        st_, ranges, _ = oracles.fva(spec, [r["id"] for r in spec["rxns"]], objective_row=False)
    except Exception:  # noqa: BLE001
        return False
    return st_ == "optimal" and any(lo is None or hi is None for lo, hi in ranges.values())


def check_case(case, ctx):
    build.reset_globals()
    spec = case["spec"]
    model = build.build_model(spec, case["path"])
    classes = [f"context-{case['context']}"]
    for k in case["ko_genes"]:
        if len(model.genes):
            model.genes[k % len(model.genes)].knock_out()
            classes.append("~knocked-out-genes")
    if case.get("fixed") == "before":
        # the model carries the row an earlier fix_objective_as_constraint left behind (default name, objective untouched
        # since): analyses that fix the objective themselves meet it (since seeded change C13-9)
        from cobra.util.solver import fix_objective_as_constraint

        try:
            fix_objective_as_constraint(model, fraction=0.5)
            classes.append("~fixed-objective-row-present")
        except Exception:  # noqa: BLE001 - no optimum: nothing to fix
            pass
    outer = observe.snapshot(model)
    if case["context"] == "inside":
        model.__enter__()
        for kind, i in case["pending"]:
            if not len(model.reactions):
                continue
            r = model.reactions[i % len(model.reactions)]
            if kind == "knock_out":
                r.knock_out()
            elif kind == "bounds":
                r.bounds = (-7, 7)
            elif kind == "objective":
                model.objective = r
            elif kind == "fix_objective":
                from cobra.util.solver import fix_objective_as_constraint

                try:
                    fix_objective_as_constraint(model, fraction=0.5)
                    classes.append("~fixed-objective-row-present")
                except Exception:  # noqa: BLE001
                    pass
            else:
                model.objective_direction = "min" if model.objective_direction == "max" else "max"
    nontrivial = False
    try:
        for c in case["calls"]:
            name = c["name"]
            if name == "~edit":
                # not an analysis: the user changes a bound between two analyses (closes a reaction, or restricts it),
                # so that whatever an earlier call left in the solver is stale for the next one (since seeded change C13-6)
                if len(model.reactions):
                    r = model.reactions[c["i"] % len(model.reactions)]
                    r.bounds = (0, 0) if c["flag"] else (max(r.lower_bound, -1), min(r.upper_bound, 1)) if r.lower_bound <= 1 and r.upper_bound >= -1 else r.bounds
                    classes.append("~bound-edit-between-analyses")
                continue
            before = observe.snapshot(model)
            res1, exc1 = None, None
            try:
                res1 = run_call(model, c, case)
            except PropertyViolation:
                raise
            except Exception as e:  # noqa: BLE001 - analyses may refuse; the state must be intact anyway
                exc1 = e
            after = observe.snapshot(model)
            d = observe.diff(before, after, limit=4)
            if d:
                how = f"raised {type(exc1).__name__}" if exc1 is not None else "returned"
                first = d[0].split(":")[0].strip("/").split("/")[0]
                _v(f"{name}:model-changed:{first}", f"{name}({ {k: v for k, v in c.items() if k != 'name'} }) {how} and left the model changed: {d}")
            # back-references (object.model, metabolite.reactions, gene.reactions, ...) belong to the state the helper
            # must leave as found; the built model is coherent, so any incoherence here was introduced by the call
            try:
                observe.audit_crossrefs(model, where=f"{name}:model-changed")
            except PropertyViolation as e:
                _v(e.bucket, f"{name}({ {k: v for k, v in c.items() if k != 'name'} }) left the cross references changed: {e.message}")
            classes.append(name)
            classes.append("~raised" if exc1 is not None else "~returned")
            if len(spec["rxns"]) >= 3 and not isinstance(exc1, (TypeError, KeyError, AttributeError)):
                nontrivial = True
            # second call
            res2, exc2 = None, None
            try:
                res2 = run_call(model, c, case)
            except PropertyViolation:
                raise
            except Exception as e:  # noqa: BLE001
                exc2 = e
            d = observe.diff(before, observe.snapshot(model), limit=4)
            if d:
                _v(f"{name}:model-changed-second-call", f"second {name} call left the model changed: {d}")
            if (exc1 is None) != (exc2 is None) and name == "blocked" and _unbounded_end(spec) and "unbounded" in str(exc1 or exc2):
                # find_blocked_reactions only passes reactions to FVA that carry no flux in its initial optimisation, and FVA
                # raises for a reaction whose flux is unbounded: whether such a reaction is passed on depends on the vertex
                # the solver happens to return (known finding blocked-unbounded-vertex-dependent)
                if "blocked-unbounded-vertex-dependent" in ctx.known:
                    ctx.excluded_by("blocked-unbounded-vertex-dependent")
                    continue
                _v("blocked:unbounded-vertex-dependent", f"model with a reaction of unbounded flux: first call {'raised ' + repr(exc1) if exc1 else 'returned ' + str(res1)}, "
                                                         f"second call {'raised ' + repr(exc2) if exc2 else 'returned ' + str(res2)}")
            if "~fixed-objective-row-present" in classes and ((exc1 is None) != (exc2 is None) or (exc1 is None and res1 is not None and not _same(res1, res2))):
                # an analysis that fixes the objective itself replaces a row of the same (default) name for its duration -
                # the user's row is ignored by the first call; the objective it restores has a new name, so the second
                # call leaves the user's row alone (known finding fixed-objective-row-replaced). The model comparison
                # above is not affected by this and stays in force.
                if "fixed-objective-row-replaced" in ctx.known:
                    ctx.excluded_by("fixed-objective-row-replaced")
                    continue
                _v("analysis:fixed-objective-row-replaced", f"{name} on a model that carries a row left by fix_objective_as_constraint: first call "
                                                            f"{'raised ' + repr(exc1) if exc1 else 'returned ' + str(res1)[:120]}, second call "
                                                            f"{'raised ' + repr(exc2) if exc2 else 'returned ' + str(res2)[:120]}")
            if (exc1 is None) != (exc2 is None):
                _v(f"{name}:not-repeatable", f"first call {'raised ' + repr(exc1) if exc1 else 'returned'}, second call {'raised ' + repr(exc2) if exc2 else 'returned'}")
            if exc1 is None and res1 is not None and not _same(res1, res2):
                _v(f"{name}:not-repeatable", f"two consecutive calls differ: {str(res1)[:200]} vs {str(res2)[:200]}")
    finally:
        if case["context"] == "inside":
            model.__exit__(None, None, None)
    if case["context"] == "inside":
        d = observe.diff(outer, observe.snapshot(model), limit=4)
        if d:
            _v("context-not-restored", f"after the user context (analyses inside: {[c['name'] for c in case['calls']]}) the model differs: {d}")
    return {"nontrivial": nontrivial, "classes": sorted(set(classes))}


def hyp_phase(ctx):
    ctx.run_hypothesis(cases(), check_case, "analyses", ctx.params["max_examples"])


def phases(tier):
    if tier == "quick":
        return [Phase("hyp", hyp_phase, shards=8, params={"max_examples": 300, "budget_s": 75, "crash_journal": True})]
    return [Phase("hyp", hyp_phase, shards=16, params={"max_examples": 600, "budget_s": 520, "crash_journal": True})]


CHECKS = {"analyses": check_case}
