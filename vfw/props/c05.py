"""C05 - flux variability analysis reports the true flux ranges."""
from __future__ import annotations

import math

from hypothesis import strategies as st

from vfw import build, observe, oracles, specs
from vfw.engine import Phase, PropertyViolation

PROPERTY_ID = "C05"
RULE = (
    "Generator: ModelSpecs (<=5 metabolites x <=8 reactions; pathway/sparse families; bounds mostly containing 0, some "
    "forced or infinite; 1-3 objective coefficients, max/min; both interfaces; low rate of infeasible models) x "
    "reaction_list (None, subset as objects, as ids, permuted) x fraction_of_optimum (1 always; 0/0.5/0.9 when the "
    "exact optimum has the sign of the direction) x pfba_factor (None, 1, 1.1, 1.5, 2) x processes (1, 2); a second "
    "phase with loopless=True on models with <=5 internal reactions whose bounds contain 0. Oracle: exact FVA "
    "(2 exact LPs per reaction under the same objective row and total-flux cap relative to the exact parsimonious "
    "optimum); loopless: exact extremes by enumeration of all internal sign patterns that admit no conformal cycle. "
    "Consequences: min<=max, index = requested ids in request order, an optimize() solution lies inside the ranges, "
    "loopless ranges inside the plain ones, model unchanged. Non-trivial: some requested reaction has min<max or a "
    "non-zero end, and for fraction<1 / pfba_factor the side constraint changes at least one end."
)
ASSUMPTIONS = [
    "Tolerance 1e-6*max(1,|x|) on every end (GLPK tolerance 1e-7 on small integer data).",
    "An exactly unbounded end must surface as +-inf or as an OptimizationError, never as a finite number.",
    "loopless=True is only called on models whose internal reactions all admit zero flux (the docstring excludes forced loops).",
]
TOL = 1e-6


@st.composite
def cases(draw, loopless=False):
    if loopless:
        spec = draw(specs.model_spec(max_mets=4, max_rxns=7, min_rxns=2, families=("pathway",), palette="finite0", gprs=False,
                                     objective="nonneg", solvers=("glpk",), halves=False))
    else:
        pal = draw(st.sampled_from(["zero", "zero", "finite", "general"]))
        spec = draw(specs.model_spec(max_mets=5, max_rxns=8, min_rxns=1, families=("pathway", "pathway", "sparse"), palette=pal, gprs=False))
    n = len(spec["rxns"])
    mode = draw(st.sampled_from(["none", "none", "objs", "ids", "mixed", "dictlist"]))
    sel = draw(st.lists(st.integers(0, max(0, n - 1)), min_size=1, max_size=max(1, n), unique=True)) if n else []
    return {
        "spec": spec,
        "path": draw(st.sampled_from(build.BUILD_PATHS_LP)),
        "list_mode": mode,
        "sel": sel,
        "fraction": draw(st.sampled_from([1, 1, 1, 0, 0.5, 0.9])),
        "pfba_factor": None if loopless else draw(st.sampled_from([None, None, None, 1, 1.1, 1.5, 2])),
        "processes": draw(st.sampled_from([1, 1, 1, 2])),
        "loopless": loopless,
    }


def _v(bucket, msg):
    raise PropertyViolation(bucket, msg)


def _has_any_cycle(spec):
    """Does any admissible sign pattern of the internal reactions contain a conformal cycle?"""
    ids = oracles.internal_ids(spec)
    rx = {r["id"]: r for r in spec["rxns"]}
    import itertools

    choices = []
    for rid in ids:
        opts = []
        if rx[rid]["ub"] > 0:
            opts.append(1)
        if rx[rid]["lb"] < 0:
            opts.append(-1)
        choices.append(opts or [0])
    return any(oracles.has_conformal_cycle(spec, dict(zip(ids, combo))) for combo in itertools.product(*choices))


def close(got, want, tol=TOL):
    return abs(got - float(want)) <= tol * max(1.0, abs(float(want)))


def check_case(case, ctx):
    from cobra.exceptions import OptimizationError
    from cobra.flux_analysis import flux_variability_analysis

    build.reset_globals()
    spec = case["spec"]
    model = build.build_model(spec, case["path"])
    rids_all = [r["id"] for r in spec["rxns"]]
    classes = [f"list-{case['list_mode']}", f"proc-{case['processes']}"]
    if not rids_all:
        return {"nontrivial": False, "classes": ["empty-model"]}
    if case["list_mode"] == "none":
        arg, want_ids = None, [r.id for r in model.reactions]  # the model's list order (a build path may have reordered it)
        if sorted(want_ids) != sorted(rids_all):
            _v("frame-shape", f"model.reactions {want_ids} but the spec has {rids_all}")
    else:
        want_ids = [rids_all[i] for i in case["sel"]]
        if case["list_mode"] == "objs":
            arg = [model.reactions.get_by_id(r) for r in want_ids]
        elif case["list_mode"] == "dictlist":  # e.g. model.exchanges or a slice/query of model.reactions
            from cobra import DictList

            arg = DictList(model.reactions.get_by_id(r) for r in want_ids)
        elif case["list_mode"] == "ids":
            arg = list(want_ids)
        else:
            arg = [model.reactions.get_by_id(r) if k % 2 else r for k, r in enumerate(want_ids)]
    res0, _ = oracles.fba(spec)
    fraction = case["fraction"]
    if res0.status == "optimal" and fraction != 1:
        sense = spec["direction"]
        if (sense == "max" and res0.value < 0) or (sense == "min" and res0.value > 0):
            fraction = 1  # outside the documented domain: the fraction is only meaningful for an optimum of that sign
    pf = case["pfba_factor"]
    classes += [f"fraction-{fraction}", f"pfba-{pf}"]
    loopless = case["loopless"]
    if loopless:
        internal = set(oracles.internal_ids(spec))
        if len(internal) > 5 or any(not (r["lb"] <= 0 <= r["ub"]) for r in spec["rxns"] if r["id"] in internal):
            return {"nontrivial": False, "classes": ["loopless-domain-skip"]}
    before = observe.snapshot(model)
    raised = None
    try:
        frame = flux_variability_analysis(model, reaction_list=arg, loopless=loopless, fraction_of_optimum=fraction,
                                          pfba_factor=pf, processes=case["processes"])
    except OptimizationError as e:
        raised = e
    except Exception as e:  # noqa: BLE001
        _v("crash", f"flux_variability_analysis raised {type(e).__name__}: {str(e)[:200]}")
    d = observe.diff(before, observe.snapshot(model), limit=4)
    if d:
        _v("model-changed", f"FVA ({'raised' if raised else 'returned'}) left the model changed: {d}")
    if res0.status != "optimal":
        if raised is None:
            _v("no-error-without-optimum", f"the objective is {res0.status} but FVA returned {frame.to_dict()}")
        return {"nontrivial": True, "classes": classes + [f"fba-{res0.status}"]}
    status, exact, info = oracles.fva(spec, want_ids, fraction=fraction, pfba_factor=pf)
    unbounded_end = any(lo is None or hi is None for lo, hi in exact.values())
    if raised is not None:
        if unbounded_end:
            return {"nontrivial": True, "classes": classes + ["unbounded-end-raised"]}
        if pf is not None and ((spec["direction"] == "max" and res0.value < 0) or (spec["direction"] == "min" and res0.value > 0)):
            if "pfba-negative-optimum" in ctx.known:
                ctx.excluded_by("pfba-negative-optimum")
                return {"nontrivial": False, "classes": classes}
            _v("pfba-negative-optimum", f"FVA with pfba_factor={pf} raised {raised!r} on a feasible model whose optimum {res0.value} has the "
                                        f"opposite sign of the direction (fraction_of_optimum={fraction})")
        _v("raised-on-feasible", f"FVA raised {raised!r} although all requested ranges are finite: {exact}")
    if list(frame.index) != want_ids or list(frame.columns) != ["minimum", "maximum"]:
        _v("frame-shape", f"index {list(frame.index)} / columns {list(frame.columns)} but requested {want_ids}")
    plain = None
    loopless_skip_exact = False
    if loopless:
        st_, ll = oracles.loopless_extremes(spec, want_ids, fraction=fraction)
        if st_ != "optimal":
            # the required objective level is only attainable with an internal cycle: the set the statement
            # quantifies over is empty, nothing is claimed
            return {"nontrivial": False, "classes": classes + ["loopless-objective-needs-cycle"]}
        _, plain, _ = oracles.fva(spec, want_ids, fraction=fraction)
        cyclic = _has_any_cycle(spec)
        if cyclic and "loopless-fva-inexact" in ctx.known:
            # known finding: on networks with internal cycles the heuristic is not exact. The exact comparison is kept
            # for acyclic networks (loopless FVA must equal plain FVA there); for cyclic ones the remaining relations
            # (inside the plain range, min<=max, frame, model unchanged) are still evaluated.
            # The deviation is confined to internal query reactions, or to objectives that contain an internal
            # reaction (experiment over 1400 cyclic networks at four seeds: every boundary end was exact when the
            # objective had boundary reactions only, as it must be: cycles never change boundary fluxes), so those
            # ends are still compared exactly.
            ctx.excluded_by("loopless-fva-inexact")
            obj_internal = any(v and rid in internal for rid, v in spec["objective"].items())
            exact = {rid: (ll[rid] if (rid not in internal and not obj_internal) else (None, None)) for rid in want_ids}
            loopless_skip_exact = True
            classes.append("loopless-cyclic-network")
            if any(e != (None, None) for e in exact.values()):
                classes.append("loopless-cyclic-boundary-ends-compared")
        else:
            exact = ll
            loopless_skip_exact = False
            classes.append("loopless-compared-cyclic" if cyclic else "loopless-compared-acyclic")
    interesting = False
    for rid in want_ids:
        lo, hi = float(frame.at[rid, "minimum"]), float(frame.at[rid, "maximum"])
        elo, ehi = exact[rid]
        for name, got, want in (("minimum", lo, elo), ("maximum", hi, ehi)):
            if want is None:
                if loopless_skip_exact:
                    continue
                if math.isfinite(got):
                    _v("finite-for-unbounded", f"{rid} {name} = {got!r} but the true range is unbounded on that side")
                continue
            if not math.isfinite(got) or not close(got, want):
                kind = "loopless-" if loopless else ""
                _v(f"{kind}wrong-{name}", f"{rid}: {name} {got!r} but the exact value is {want} (fraction={fraction}, pfba_factor={pf}, "
                                          f"direction={spec['direction']}, loopless={loopless})")
        if lo > hi + TOL * max(1, abs(hi)):
            _v("min-above-max", f"{rid}: minimum {lo!r} > maximum {hi!r}")
        if elo is not None and ehi is not None and (elo != ehi or elo != 0):
            interesting = True
        if loopless and plain:
            plo, phi = plain[rid]
            if (plo is not None and lo < float(plo) - TOL * max(1, abs(float(plo)))) or (phi is not None and hi > float(phi) + TOL * max(1, abs(float(phi)))):
                _v("loopless-outside-plain", f"{rid}: loopless range [{lo},{hi}] outside the plain range [{plo},{phi}]")
    # an optimal FBA solution lies inside the ranges (not under a total-flux cap, which an arbitrary optimum may exceed)
    if pf is None and not loopless:
        sol = model.optimize()
        for rid in want_ids:
            v = float(sol.fluxes[rid])
            lo, hi = float(frame.at[rid, "minimum"]), float(frame.at[rid, "maximum"])
            t = TOL * max(1.0, abs(v), 1000.0 if not math.isfinite(lo + hi) else max(abs(lo), abs(hi)))
            if v < lo - t or v > hi + t:
                _v("fba-outside-range", f"{rid}: an optimal FBA flux {v!r} lies outside the reported range [{lo}, {hi}]")
    side_active = True
    if (fraction != 1 or pf is not None) and not loopless:
        _, base, _ = oracles.fva(spec, want_ids, fraction=0 if fraction != 1 else 1, pfba_factor=None, objective_row=True)
        side_active = any(base[r] != exact[r] for r in want_ids)
        classes.append("side-constraint-active" if side_active else "side-constraint-slack")
    return {"nontrivial": interesting and side_active, "classes": classes}


def hyp_phase(ctx):
    ctx.run_hypothesis(cases(), check_case, "fva", ctx.params["max_examples"])


def ll_phase(ctx):
    ctx.run_hypothesis(cases(loopless=True), check_case, "fva", ctx.params["max_examples"], seed_extra=3)


def phases(tier):
    if tier == "quick":
        return [Phase("fva", hyp_phase, shards=6, params={"max_examples": 400, "budget_s": 70}),
                Phase("loopless", ll_phase, shards=2, params={"max_examples": 150, "budget_s": 70})]
    return [Phase("fva", hyp_phase, shards=12, params={"max_examples": 1200, "budget_s": 520}),
            Phase("loopless", ll_phase, shards=4, params={"max_examples": 300, "budget_s": 520})]


CHECKS = {"fva": check_case}
