"""C20 - summaries report the fluxes of the solution they describe."""
from __future__ import annotations

import math
from fractions import Fraction as F

from hypothesis import strategies as st

from vfw import build, oracles, specs
from vfw.engine import Phase, PropertyViolation
from vfw.exactlp import frac

PROPERTY_ID = "C20"
RULE = (
    "Generator: feasible exchange-rich ModelSpecs (2-4 metabolites, <=6 generated reactions of the pathway/sparse/"
    "degenerate families plus 2-4 added boundary reactions written both ways round with coefficients -3..3 incl. "
    "halves, the first one always negative and non-unit; finite bounds; 0-3 objective coefficients, max/min; metabolite "
    "names and formulas; in about a third of the cases 1-2 metabolite balances relaxed to an interval through "
    "model.constraints[met].lb/ub so that production and consumption differ) x solution (optimize(), pfba(), an exact "
    "vertex of the flux polytope for a random objective wrapped in a Solution with +-1e-10 noise on zero fluxes, or None) "
    "x fva (None, float fraction 1/0.9/0.5/0, frame from flux_variability_analysis, frame built from the exact ranges) "
    "x rendering options (names, threshold, float_format, element, column_width). Oracle, computed from the spec and "
    "the Solution passed in only: model summary - every reaction with exactly one metabolite occurs exactly once in "
    "uptake_flux + secretion_flux and in to_frame(), on the side of the sign of flux*coefficient (zero: sign of the "
    "coefficient; |value| between 1e-9 and 1e-5 undetermined), with that value, the right metabolite and factor; the "
    "objective value printed by to_string() equals sum coef*flux (solution=None: the exact optimum); metabolite summary "
    "- every reaction of the metabolite exactly once in producing_flux + consuming_flux with flux*coefficient, "
    "producing + consuming = 0 for unrelaxed metabolites (inside the relaxed interval otherwise), percent = |flux| / "
    "side total and sums to 1 per side with non-zero total; reaction summary frame carries the solution flux; "
    "minimum/maximum equal the FVA range (fva=float: exact rational FVA under the same objective row; frame: the frame "
    "passed in) times the coefficient, ends swapped for negative coefficients; with solution=None values must be "
    "within the bounds, balanced and reach the exact optimum. to_string/to_html (drawn options), str(), _repr_html_() "
    "and to_frame() must not raise for the model, every metabolite and every reaction. Non-trivial: at least one "
    "boundary reaction with a negative non-unit coefficient carries flux and at least one boundary reaction has zero flux."
)
ASSUMPTIONS = [
    "Values are compared with 1e-6*max(1,|x|) (times |coefficient| for FVA ends); the side of a value whose magnitude lies "
    "between 1e-9 and 1e-5 (model tolerance 1e-7, 100x dead band) is not asserted.",
    "The objective value of a summary is observed through the public text rendering (the line 'expr = value').",
    "For a model with an empty objective the summary's documented fallback ('Expression = nan') is accepted.",
    "fva is passed as a Python float or as a frame covering all reactions; an int is outside the documented domain.",
    "Relaxing a metabolite balance through model.constraints[met_id].lb/ub is legitimate use of the solver interface.",
]
TOL = 1e-6
ZERO_LO, ZERO_HI = 1e-9, 1e-5  # dead band around model.tolerance = 1e-7
KNOWN_HIDDEN = "reaction-summary-hidden-flux"

NEG_NONUNIT = [-2, -3, -0.5, -1.5, -2]
EX_COEFS = [-1, -1, 1, 1, 2, 3, -2, -3, 0.5, -1.5, 2.5]
EX_BOUNDS = [(-10, 10), (-10, 10), (0, 10), (-10, 0), (0, 0), (-5, 100), (-100, 100), (0, 100), (-10, 5)]
RELAX = [(-5, 0), (0, 5), (-3, 3), (0, 2.5), (-100, 0), (0, 100)]
MET_NAMES = ["", "glucose", "alpha-D x", "M (e)", "water"]


@st.composite
def cases(draw):
    pal = draw(st.sampled_from(["finite0", "finite0", "finite"]))
    spec = draw(specs.model_spec(max_mets=4, max_rxns=6, min_mets=2, min_rxns=1,
                                 families=("pathway", "pathway", "sparse", "degenerate"), palette=pal, gprs=False,
                                 objective="any", solvers=("glpk",), exchange_rich=True))
    mids = [m["id"] for m in spec["mets"]]
    for m in spec["mets"]:
        m["name"] = draw(st.sampled_from(MET_NAMES))
        m["formula"] = draw(specs.FORMULAS)
    for k in range(draw(st.integers(2, 4))):
        mid = draw(st.sampled_from(mids[:2] + mids))  # bias: the first metabolites collect >= 3 reactions
        c = draw(st.sampled_from(NEG_NONUNIT)) if k == 0 else draw(st.sampled_from(EX_COEFS))
        lb, ub = draw(st.sampled_from(EX_BOUNDS))
        spec["rxns"].append({"id": f"EX{k}", "mets": {mid: c}, "lb": lb, "ub": ub, "gpr": None, "subsystem": "",
                             "name": draw(st.sampled_from(["", "exchange", "EX a b"])), "notes": {}, "annotation": {}})
    if draw(st.booleans()):
        spec["objective"] = dict(spec["objective"])
        spec["objective"]["EX0"] = draw(st.sampled_from([1, -1, 2, 0.5]))
    n = len(spec["rxns"])
    used = sorted({m for r in spec["rxns"] for m, c in r["mets"].items() if c != 0})
    relax = {}
    if draw(st.integers(0, 2)) == 2:  # (shrinks towards the unrelaxed model)
        for mid in draw(st.lists(st.sampled_from(used), min_size=1, max_size=2, unique=True)):
            relax[mid] = list(draw(st.sampled_from(RELAX)))
    return {
        "spec": spec,
        "path": draw(st.sampled_from(build.BUILD_PATHS_LP)),
        "relax": relax,
        "solution": draw(st.sampled_from(["optimize", "pfba", "vertex", "vertex", "none"])),
        "vertex_obj": draw(st.lists(st.integers(-2, 2), min_size=n, max_size=n)),
        "vertex_sense": draw(st.sampled_from(["max", "min"])),
        "noise": draw(st.lists(st.sampled_from([0, 0, 1, -1]), min_size=n, max_size=n)),
        "fva": draw(st.sampled_from(["none", "none", "float", "frame-cobra", "frame-exact"])),
        "fraction": draw(st.sampled_from([1.0, 1.0, 0.9, 0.5, 0.0])),
        "names": draw(st.booleans()),
        "threshold": draw(st.sampled_from([None, None, 0.0, 1e-9, 0.5, 5.0])),
        "float_format": draw(st.sampled_from([".4G", ".4G", ".3f", ".2e", "g"])),
        "element": draw(st.sampled_from(["C", "C", "H", "N"])),
        "column_width": draw(st.sampled_from([79, 79, 30, 10])),
    }


def _v(bucket, msg):
    raise PropertyViolation(bucket, msg)


def close(got, want, scale=1.0):
    return abs(got - want) <= TOL * scale * max(1.0, abs(want))


def make_flp(spec, relax):
    """Exact flux LP of the spec with the relaxed metabolite rows (FluxLP adds one row per metabolite, in order)."""
    flp = oracles.FluxLP(spec)
    for i, m in enumerate(spec["mets"]):
        if m["id"] in relax:
            coefs, lo, hi = flp.lp.rows[i]
            if lo != 0 or hi != 0:
                raise RuntimeError("FluxLP row layout changed")
            flp.lp.rows[i] = (coefs, frac(relax[m["id"]][0]), frac(relax[m["id"]][1]))
    return flp


def exact_fva(spec, relax, fraction, opt):
    flp = make_flp(spec, relax)
    flp.add_objective_row(frac(fraction) * opt)
    solver = flp.solver()
    out = {}
    for rid, j in flp.idx.items():
        lo, hi = solver.solve({j: F(1)}, "min"), solver.solve({j: F(1)}, "max")
        if lo.status != "optimal" or hi.status != "optimal":
            raise RuntimeError(f"exact FVA of {rid}: {lo.status}/{hi.status} on a bounded feasible model")
        out[rid] = (float(lo.value), float(hi.value))
    return out


def side_of(value, coef):
    """'+' producing/uptake, '-' consuming/secretion, None inside the dead band."""
    if abs(value) > ZERO_HI:
        return "+" if value > 0 else "-"
    if abs(value) < ZERO_LO:
        return "+" if coef > 0 else "-"
    return None


def scaled_range(raw, coef):
    lo, hi = raw
    return (coef * lo, coef * hi) if coef > 0 else (coef * hi, coef * lo)


def _render(summary, case, element=False):
    """Call every rendering entry point. Returns {entry point: result} plus "errors": [(entry point, kwargs, exception)]."""
    kw = {"names": case["names"], "threshold": case["threshold"], "float_format": case["float_format"]}
    if element:
        kw["element"] = case["element"]
    calls = [
        ("to_string", lambda: summary.to_string(column_width=case["column_width"], **kw), kw),
        ("to_html", lambda: summary.to_html(**kw), kw),
        ("str", lambda: str(summary), {}),
        ("_repr_html_", lambda: summary._repr_html_(), {}),
        ("to_frame", lambda: summary.to_frame(), {}),
    ]
    out = {}
    for name, fn, args in calls:
        try:
            out[name] = fn()
        except Exception as e:  # noqa: BLE001 - the property says rendering never raises; judged by the caller
            out.setdefault("errors", []).append((name, args, e))
    return out


def check_case(case, ctx):
    import pandas as pd
    from cobra import Solution
    from cobra.flux_analysis import flux_variability_analysis, pfba

    build.reset_globals()
    spec, relax = case["spec"], case["relax"]
    model = build.build_model(spec, case["path"])
    for mid, (lo, hi) in relax.items():
        con = model.constraints[mid]
        con.lb = lo
        con.ub = hi
    tol = model.tolerance
    rids = [r["id"] for r in spec["rxns"]]
    rx = {r["id"]: r for r in spec["rxns"]}
    objective = {rid: c for rid, c in (spec["objective"] or {}).items() if c != 0}
    classes = [f"solution-{case['solution']}", f"fva-{case['fva']}", "relaxed-balance" if relax else "steady-state"]

    flp = make_flp(spec, relax)
    res0 = flp.lp.solve(flp.c, flp.sense)
    if res0.status != "optimal":
        return {"nontrivial": False, "classes": [f"fba-{res0.status}"]}

    # ---- the solution handed to the summaries -----------------------------------------------------------
    sol_kind = case["solution"]
    if sol_kind == "optimize":
        sol = model.optimize()
    elif sol_kind == "pfba":
        sol = pfba(model)
    elif sol_kind == "vertex":
        c = {j: k for j, k in enumerate(case["vertex_obj"]) if k}
        vres = flp.lp.solve(c, case["vertex_sense"])
        if vres.status != "optimal":
            raise RuntimeError(f"vertex LP {vres.status} on a bounded feasible model")
        vals = []
        for j, x in enumerate(vres.x):
            v = float(x)
            if x == 0 and case["noise"][j]:
                v = case["noise"][j] * 1e-10  # solver-like noise, far below the model tolerance
                classes.append("noise-on-zero-flux")
            vals.append(v)
        fl = pd.Series(vals, index=rids, name="fluxes", dtype=float)
        sol = Solution(objective_value=float(sum(cf * fl[rid] for rid, cf in objective.items())), status="optimal", fluxes=fl)
    else:
        sol = None
    if sol is not None and sol.status != "optimal":
        return {"nontrivial": False, "classes": classes + ["sut-solution-not-optimal"]}
    given = None if sol is None else {rid: float(sol.fluxes[rid]) for rid in rids}

    # ---- the fva argument and the raw ranges it stands for --------------------------------------------------
    fraction = case["fraction"]
    if fraction != 1.0 and ((flp.sense == "max" and res0.value < 0) or (flp.sense == "min" and res0.value > 0)):
        fraction = 1.0  # the fraction is only meaningful for an optimum that has the sign of the direction
    fva_kind = case["fva"]
    raw = None
    if fva_kind == "none":
        fva_arg = None
    elif fva_kind == "float":
        fva_arg = float(fraction)
        raw = exact_fva(spec, relax, fraction, res0.value)
    elif fva_kind == "frame-cobra":
        fva_arg = flux_variability_analysis(model, fraction_of_optimum=fraction)
        raw = {rid: (float(fva_arg.at[rid, "minimum"]), float(fva_arg.at[rid, "maximum"])) for rid in rids}
    else:
        raw = exact_fva(spec, relax, fraction, res0.value)
        fva_arg = pd.DataFrame({"minimum": [raw[r][0] for r in rids], "maximum": [raw[r][1] for r in rids]}, index=rids)
    with_fva = raw is not None
    if with_fva:
        classes.append(f"fraction-{fraction}")
    undetermined = 0
    what = f"solution={sol_kind}, fva={fva_kind}" + (f" (fraction_of_optimum {fraction})" if with_fva else "")

    def check_range(where, rid, coef, got_lo, got_hi):
        elo, ehi = scaled_range(raw[rid], coef)
        sc = max(1.0, abs(coef))
        for name, got, want in (("minimum", got_lo, elo), ("maximum", got_hi, ehi)):
            if not (isinstance(got, float) and math.isfinite(got)) or not close(got, want, sc):
                swapped = close(got, ehi if name == "minimum" else elo, sc) if isinstance(got, float) and math.isfinite(got) else False
                _v(f"{where}:fva-{'swapped' if swapped and coef < 0 else name}",
                   f"{rid} (coefficient {coef}): {name} {got!r} but the FVA range {raw[rid]} scaled by the coefficient gives "
                   f"[{elo}, {ehi}] ({what})")

    def check_bounds(where, rid, v):
        r = rx[rid]
        t = TOL * max(1.0, abs(r["lb"]), abs(r["ub"]))
        if not (r["lb"] - t <= v <= r["ub"] + t):
            _v(f"{where}:default-solution-infeasible", f"{rid}: flux {v!r} of the defaulted pFBA solution outside [{r['lb']}, {r['ub']}]")

    def split_tables(where, plus, minus, expected, label_plus, label_minus):
        """expected: {rid: coef}. Every rid exactly once over both tables, on the right side, right value.
        Returns {rid: reported flux}."""
        nonlocal undetermined
        listed = [(rid, "+") for rid in plus.index] + [(rid, "-") for rid in minus.index]
        ids = [rid for rid, _ in listed]
        for rid in expected:
            k = ids.count(rid)
            if k != 1:
                _v(f"{where}:listed-{'twice' if k > 1 else 'never'}",
                   f"{rid} is listed {k} times over {label_plus} {list(plus.index)} and {label_minus} {list(minus.index)} ({what})")
        extra = [rid for rid in ids if rid not in expected]
        if extra:
            _v(f"{where}:extra-rows", f"{extra} listed but not expected; expected {sorted(expected)}")
        cols = ["flux", "minimum", "maximum", "reaction"] if with_fva else ["flux", "reaction"]
        for tab, lab in ((plus, label_plus), (minus, label_minus)):
            missing = [c for c in cols if c not in tab.columns]
            if missing or (not with_fva and "minimum" in tab.columns):
                _v(f"{where}:columns", f"{lab} has columns {list(tab.columns)} ({what})")
        reported = {}
        for rid, side in listed:
            tab = plus if side == "+" else minus
            coef = expected[rid]
            got = float(tab.at[rid, "flux"])
            if tab.at[rid, "reaction"] != rid:
                _v(f"{where}:row-label", f"row {rid} names reaction {tab.at[rid, 'reaction']!r}")
            if given is not None:
                want = given[rid] * coef
                if not close(got, want):
                    _v(f"{where}:flux-value", f"{rid}: reported {got!r} but solution flux {given[rid]!r} x coefficient {coef} = {want!r} ({what})")
                exp_side = side_of(want, coef)
            else:
                if math.isnan(got):
                    _v(f"{where}:flux-value", f"{rid}: reported flux is nan ({what})")
                check_bounds(where, rid, got / coef)
                exp_side = side_of(got, coef) if (got == 0 or abs(got) > ZERO_HI) else None
            if exp_side is None:
                undetermined += 1
            elif exp_side != side:
                _v(f"{where}:wrong-side", f"{rid} (coefficient {coef}, flux x coefficient {got!r}) is listed under "
                                          f"{label_plus if side == '+' else label_minus} ({what})")
            if with_fva:
                check_range(where, rid, coef, float(tab.at[rid, "minimum"]), float(tab.at[rid, "maximum"]))
            reported[rid] = got
        return reported

    def check_frame(where, frame, expected, reported, met_of=None):
        if sorted(frame.index) != sorted(expected):
            _v(f"{where}:to_frame-rows", f"to_frame() index {list(frame.index)} but expected rows {sorted(expected)}")
        cols = {"reaction", "flux", "factor"} | ({"minimum", "maximum"} if with_fva else set()) | ({"metabolite"} if met_of else set())
        if set(frame.columns) != cols:
            _v(f"{where}:to_frame-columns", f"to_frame() columns {list(frame.columns)}, expected {sorted(cols)} ({what})")
        for rid, coef in expected.items():
            if frame.at[rid, "reaction"] != rid or float(frame.at[rid, "factor"]) != float(coef):
                _v(f"{where}:to_frame-row", f"{rid}: reaction {frame.at[rid, 'reaction']!r}, factor {frame.at[rid, 'factor']!r}, expected factor {coef}")
            if met_of and frame.at[rid, "metabolite"] != met_of[rid]:
                _v(f"{where}:to_frame-row", f"{rid}: metabolite {frame.at[rid, 'metabolite']!r}, expected {met_of[rid]}")
            if not close(float(frame.at[rid, "flux"]), reported[rid]):
                _v(f"{where}:to_frame-flux", f"{rid}: to_frame() flux {frame.at[rid, 'flux']!r} but the table shows {reported[rid]!r}")
            if with_fva:
                check_range(where + ":to_frame", rid, coef, float(frame.at[rid, "minimum"]), float(frame.at[rid, "maximum"]))

    def render(summary, kind, ident, element=False, hidden_ok=None):
        out = _render(summary, case, element)
        for name, args, e in out.get("errors", []):
            if hidden_ok is not None and isinstance(e, KeyError) and hidden_ok(args.get("threshold")) and name != "to_frame":
                if KNOWN_HIDDEN in ctx.known:
                    ctx.excluded_by(KNOWN_HIDDEN)
                    continue
                _v(f"render:{kind}-hidden-flux", f"{kind} {ident}: {name}({args}) raised {type(e).__name__}: {str(e)[:120]} - the flux"
                                                 f"{' and its range are' if with_fva else ' is'} below the display threshold ({what})")
            _v(f"render:{kind}", f"{kind} {ident}: {name}({args}) raised {type(e).__name__}: {str(e)[:160]} ({what})")
        return out

    # ---- model summary --------------------------------------------------------------------------------------
    boundary, met_of = {}, {}
    for r in spec["rxns"]:
        nz = [(m, c) for m, c in r["mets"].items() if c != 0]
        if len(nz) == 1:
            boundary[r["id"]], met_of[r["id"]] = nz[0][1], nz[0][0]
    try:
        ms = model.summary(solution=sol, fva=fva_arg)
    except Exception as e:  # noqa: BLE001
        _v("model:raised", f"model.summary({what}) raised {type(e).__name__}: {str(e)[:200]}")
    up, sec = ms.uptake_flux, ms.secretion_flux
    rep = split_tables("model", up, sec, boundary, "uptake_flux", "secretion_flux")
    for tab in (up, sec):
        for rid in tab.index:
            if tab.at[rid, "metabolite"] != met_of[rid]:
                _v("model:row-label", f"{rid}: metabolite {tab.at[rid, 'metabolite']!r}, expected {met_of[rid]}")
    out = render(ms, "model", spec["id"], element=True)
    check_frame("model", out["to_frame"], boundary, rep, met_of)
    # objective value as shown by the text rendering
    lines = out["to_string"].split("\n")
    if lines[0] != "Objective" or " = " not in lines[2]:
        _v("model:objective-line", f"unexpected head of to_string(): {lines[:3]}")
    shown = float(lines[2].rsplit(" = ", 1)[1])
    if not objective:
        classes.append("objective-empty")
        if not (math.isnan(shown) or abs(shown) <= TOL):
            _v("model:objective-value", f"empty objective but the summary reports {shown!r}")
    else:
        want = sum(cf * given[rid] for rid, cf in objective.items()) if given is not None else float(res0.value)
        if math.isnan(shown) or not close(shown, want):
            _v("model:objective-value", f"summary reports objective value {shown!r}; objective {objective} at the "
                                        f"{'given solution' if given is not None else 'exact optimum'} is {want!r} ({what})")

    carrying = any(c < 0 and abs(c) != 1 and abs(rep[rid]) > ZERO_HI for rid, c in boundary.items())
    zero = any(rep[rid] == 0 for rid in boundary)
    classes.append("neg-nonunit-carrying" if carrying else "neg-nonunit-idle")
    if zero:
        classes.append("boundary-zero-flux")
    if any(c < 0 and rep[rid] > ZERO_HI for rid, c in boundary.items()):
        classes.append("uptake-through-negative-coefficient")
    if any(c > 0 and rep[rid] < -ZERO_HI for rid, c in boundary.items()):
        classes.append("secretion-through-positive-coefficient")
    if with_fva and any(c < 0 and raw[rid][0] != raw[rid][1] for rid, c in boundary.items()):
        classes.append("fva-range-swapped-boundary")

    # ---- metabolite summaries ---------------------------------------------------------------------------------
    for m in spec["mets"]:
        mid = m["id"]
        expected = {r["id"]: r["mets"][mid] for r in spec["rxns"] if r["mets"].get(mid, 0) != 0}
        where = "metabolite"
        try:
            s = model.metabolites.get_by_id(mid).summary(solution=sol, fva=fva_arg)
        except Exception as e:  # noqa: BLE001
            _v("metabolite:raised", f"{mid}.summary({what}) raised {type(e).__name__}: {str(e)[:200]}")
        prod, cons = s.producing_flux, s.consuming_flux
        und0 = undetermined
        rep = split_tables(where, prod, cons, expected, f"{mid}.producing_flux", f"{mid}.consuming_flux")
        out = render(s, "metabolite", mid)
        check_frame(where, out["to_frame"], expected, rep)
        total = sum(rep.values())
        scale = max([1.0] + [abs(v) for v in rep.values()]) * max(1, len(rep))
        lo, hi = relax.get(mid, (0, 0))
        if not (lo - TOL * scale <= total <= hi + TOL * scale):
            _v("metabolite:imbalance", f"{mid}: producing + consuming = {total!r}, the balance allows [{lo}, {hi}] "
                                       f"(producing {prod['flux'].to_dict()}, consuming {cons['flux'].to_dict()}, {what})")
        if len(expected) >= 3:
            classes.append("metabolite-with>=3-reactions")
        for tab, lab in ((prod, "producing"), (cons, "consuming")):
            side_total = sum(abs(float(x)) for x in tab["flux"])
            if "percent" not in tab.columns:
                _v("metabolite:columns", f"{mid}.{lab}_flux has no percent column")
            if side_total == 0 or undetermined != und0:
                continue
            psum = 0.0
            for rid in tab.index:
                p, want = float(tab.at[rid, "percent"]), abs(float(tab.at[rid, "flux"])) / side_total
                if math.isnan(p) or abs(p - want) > 1e-9:
                    _v("metabolite:percent", f"{mid}: {lab} percent of {rid} is {p!r}, |flux| {abs(float(tab.at[rid, 'flux']))!r} / "
                                             f"{lab} total {side_total!r} = {want!r} ({what})")
                psum += p
            if abs(psum - 1.0) > 1e-9:
                _v("metabolite:percent-sum", f"{mid}: {lab} percentages sum to {psum!r}")
            if sum(1 for x in tab["flux"] if x != 0) >= 2:
                classes.append("percent-shared")
        p_tot, c_tot = sum(abs(float(x)) for x in prod["flux"]), sum(abs(float(x)) for x in cons["flux"])
        if abs(p_tot - c_tot) > 1e-3 and p_tot > 0 and c_tot > 0:
            classes.append("sides-with-different-totals")

    # ---- reaction summaries -----------------------------------------------------------------------------------
    for rid in rids:
        try:
            s = model.reactions.get_by_id(rid).summary(solution=sol, fva=fva_arg)
        except Exception as e:  # noqa: BLE001
            _v("reaction:raised", f"{rid}.summary({what}) raised {type(e).__name__}: {str(e)[:200]}")
        try:
            fr = s.to_frame()
        except Exception as e:  # noqa: BLE001
            _v("render:reaction", f"reaction {rid}: to_frame() raised {type(e).__name__}: {str(e)[:160]}")
        want_cols = ["flux", "minimum", "maximum"] if with_fva else ["flux"]
        if list(fr.index) != [rid] or sorted(fr.columns) != sorted(want_cols):
            _v("reaction:to_frame-shape", f"{rid}: to_frame() index {list(fr.index)} columns {list(fr.columns)} ({what})")
        got = float(fr.at[rid, "flux"])
        if given is not None:
            if not close(got, given[rid]):
                _v("reaction:flux-value", f"{rid}: summary flux {got!r} but the solution has {given[rid]!r}")
        else:
            check_bounds("reaction", rid, got)
        if with_fva:
            check_range("reaction", rid, 1, float(fr.at[rid, "minimum"]), float(fr.at[rid, "maximum"]))
        vals = [abs(float(fr.at[rid, c])) for c in want_cols]

        def hidden(threshold, vals=vals):
            thr = tol if threshold is None or threshold < tol else threshold
            return all(v < thr for v in vals)

        if hidden(None):
            classes.append("reaction-hidden-at-default-threshold")
        render(s, "reaction", rid, hidden_ok=hidden)

    return {"nontrivial": carrying and zero, "classes": sorted(set(classes)), "undetermined": undetermined}


def hyp_phase(ctx):
    ctx.run_hypothesis(cases(), check_case, "summary", ctx.params["max_examples"])


def phases(tier):
    if tier == "quick":
        return [Phase("hyp", hyp_phase, shards=8, params={"max_examples": 200, "budget_s": 55})]
    return [Phase("hyp", hyp_phase, shards=16, params={"max_examples": 1200, "budget_s": 500})]


CHECKS = {"summary": check_case}
