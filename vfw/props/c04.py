"""C04 - FBA returns a true optimum, or a true verdict that none exists."""
from __future__ import annotations

import copy
import math
from fractions import Fraction as F

from hypothesis import strategies as st

from vfw import build, observe, specs
from vfw.engine import Phase, PropertyViolation

PROPERTY_ID = "C04"
RULE = (
    "Generator: ModelSpecs (<=6 metabolites x <=9 reactions, families sparse/pathway/degenerate, bounds palette with "
    "fixed, forced, one-sided and infinite bounds, 0-3 objective coefficients incl. negative, max/min, glpk and "
    "glpk_exact, 4 build paths) x entry point (optimize with/without objective_sense/raise_error, slim_optimize with "
    "error_value nan/number/None) x follow-up edit. Oracle: exact rational simplex with verified certificates on the "
    "spec; duals checked by complementary slackness computed by the harness. Non-trivial: exact optimum != 0 with "
    ">=2 active reactions, or an exact infeasible/unbounded verdict; distinct by canonical hash of the case."
)
ASSUMPTIONS = [
    "GLPK answers for these small integer/half-integer problems lie within 1e-6 (relative) of the exact optimum.",
    "When no optimum exists the reported status may be any non-optimal status (GLPK does not always distinguish "
    "unbounded from undefined); the raised exception must be the class cobra maps that status to.",
    "exactlp certificates are verified in exact arithmetic; a failing certificate is a harness error.",
    "Badly scaled models (bounds or optimal fluxes below the solver tolerance of 1e-7) are not generated: glp_simplex was "
    "observed to loop forever on them (no time limit is configured), and verdicts about infeasibilities of that size are not "
    "the exact ones. A change that only affects fluxes below the tolerance (seeded change C04-6) is therefore not detected.",
]

TOL = 1e-6


@st.composite
def cases(draw):
    spec = draw(specs.model_spec(palette="general", families=("sparse", "pathway", "pathway", "degenerate"), gprs=False))
    if draw(st.integers(0, 3)) == 0:  # raise the share of unbounded instances
        for r in spec["rxns"]:
            k = draw(st.sampled_from([0, 0, 1, 2, 3]))
            if k & 1 and r["ub"] >= 0:
                r["ub"] = specs.INF
            if k & 2 and r["lb"] <= 0:
                r["lb"] = -specs.INF
    return {
        "spec": spec,
        "path": draw(st.sampled_from(build.BUILD_PATHS_LP)),
        "sense_arg": draw(st.sampled_from([None, None, "maximize", "minimize"])),
        "raise_error": draw(st.booleans()),
        "error_value": draw(st.sampled_from(["nan", "nan", 0.0, -1.5, None])),
        "edit": draw(st.sampled_from(["none", "bounds", "objective", "remove", "direction"])),
        "edit_arg": draw(st.integers(0, 50)),
    }


def _v(bucket, msg):
    raise PropertyViolation(bucket, msg)


def check_feasible_vector(spec, flux, where, tol=TOL):
    """Independent steady-state and bound check of a flux dict against the spec."""
    maxb = max([1.0] + [abs(b) for r in spec["rxns"] for b in (r["lb"], r["ub"]) if math.isfinite(b)])
    t = tol * maxb
    for r in spec["rxns"]:
        v = flux[r["id"]]
        if not (r["lb"] - t <= v <= r["ub"] + t):
            _v(f"{where}:bound", f"flux {v!r} of {r['id']} outside [{r['lb']}, {r['ub']}]")
    for m in spec["mets"]:
        s = sum(r["mets"].get(m["id"], 0) * flux[r["id"]] for r in spec["rxns"])
        if abs(s) > t:
            _v(f"{where}:steady-state", f"S.v for {m['id']} = {s!r}")
    for c in spec.get("cons", []):
        s = sum(k * flux[rid] for rid, k in c["coefs"].items())
        if (c["lb"] is not None and s < c["lb"] - t) or (c["ub"] is not None and s > c["ub"] + t):
            _v(f"{where}:user-constraint", f"constraint {c['name']} value {s!r} outside [{c['lb']}, {c['ub']}]")


def check_solution_optimal(spec, sol, sense, exact, known, ctx, where="optimize"):
    """sol is a cobra Solution with status optimal; exact is the exactlp Result for the same sense."""
    if exact.status != "optimal":
        _v(f"{where}:false-optimal", f"status optimal but the exact verdict is {exact.status}")
    flux = {rid: float(sol.fluxes[rid]) for rid in sol.fluxes.index}
    if sorted(sol.fluxes.index) != sorted(r["id"] for r in spec["rxns"]):
        _v(f"{where}:index", f"fluxes index {list(sol.fluxes.index)}")
    check_feasible_vector(spec, flux, where)
    cvec = spec["objective"]
    cv = sum(c * flux[rid] for rid, c in cvec.items())
    opt = float(exact.value)
    scale = max(1.0, abs(opt))
    # objective_value and the fluxes come from the same primal values: they agree far below the solver tolerance
    if abs(sol.objective_value - cv) > 1e-9 * max(1.0, sum(abs(c * flux[rid]) for rid, c in cvec.items())):
        _v(f"{where}:objective-vs-fluxes", f"objective_value {sol.objective_value!r} but c.v = {cv!r}")
    if abs(sol.objective_value - opt) > TOL * scale:
        _v(f"{where}:not-optimal", f"objective_value {sol.objective_value!r} but exact optimum is {exact.value} ({sense})")
    # duals certify the optimum: d := c - S^T y ; complementary slackness for the direction
    y = {mid: float(sol.shadow_prices[mid]) for mid in sol.shadow_prices.index}
    if sorted(y) != sorted(m["id"] for m in spec["mets"]):
        _v(f"{where}:index", f"shadow price index {sorted(y)}")
    maxb = max([1.0] + [abs(b) for r in spec["rxns"] for b in (r["lb"], r["ub"]) if math.isfinite(b)])
    sgn = 1.0 if sense == "max" else -1.0
    dtol = 1e-6 * max(1.0, max((abs(c) for c in cvec.values()), default=1.0), max((abs(v) for v in y.values()), default=0.0))
    ftol = 1e-6 * maxb
    if not spec.get("cons"):
        for r in spec["rxns"]:
            d = cvec.get(r["id"], 0) - sum(cf * y[m] for m, cf in r["mets"].items())
            v = flux[r["id"]]
            at_lb, at_ub = v <= r["lb"] + ftol, v >= r["ub"] - ftol
            # for a maximisation: improving direction must be blocked by a bound
            if sgn * d > dtol and not at_ub:
                _v(f"{where}:duals-not-certifying", f"{r['id']}: c - S^T y = {d!r} (favourable to increase for {sense}) but flux {v!r} is below its upper bound {r['ub']}")
            if sgn * d < -dtol and not at_lb:
                _v(f"{where}:duals-not-certifying", f"{r['id']}: c - S^T y = {d!r} (favourable to decrease for {sense}) but flux {v!r} is above its lower bound {r['lb']}")
            rc = float(sol.reduced_costs[r["id"]])
            if "rc-doubled" in known:
                ctx.excluded_by("rc-doubled")
                if abs(rc - 2 * d) > 2 * dtol:
                    _v(f"{where}:reduced-cost-other", f"{r['id']}: reduced cost {rc!r} is neither c - S^T y = {d!r} nor its known doubled form")
            elif abs(rc - d) > dtol:
                kind = "reduced-cost-doubled" if abs(rc - 2 * d) <= 2 * dtol else "reduced-cost"
                _v(f"{where}:{kind}", f"{r['id']}: reduced cost {rc!r} but c - S^T y = {d!r}")
    return flux


def _exp_value(case_ev):
    return float("nan") if case_ev == "nan" else case_ev


def check_case(case, ctx):
    import cobra
    from cobra.exceptions import OPTLANG_TO_EXCEPTIONS_DICT, OptimizationError

    known = ctx.known
    build.reset_globals()
    spec = case["spec"]
    model = build.build_model(spec, case["path"])
    em = build.ExactModel(spec)
    classes = [f"solver-{spec['solver']}", f"family-{spec['family']}"]
    sense0 = spec["direction"]
    sense = {"maximize": "max", "minimize": "min", None: sense0}[case["sense_arg"]]
    exact = em.solve(sense=sense)
    exact0 = exact if sense == sense0 else em.solve(sense=sense0)
    classes.append(f"verdict-{exact.status}")
    before = observe.snapshot(model)

    # ---- optimize() -----------------------------------------------------------------------------
    sol, raised = None, None
    try:
        if case["sense_arg"] is None:
            sol = model.optimize(raise_error=case["raise_error"])
        else:
            sol = model.optimize(objective_sense=case["sense_arg"], raise_error=case["raise_error"])
    except OptimizationError as e:
        raised = e
    except Exception as e:  # noqa: BLE001
        _v("optimize:crash", f"optimize raised {type(e).__name__}: {e}")
    after = observe.snapshot(model)
    d = observe.diff(before, after)
    if d:
        if True:
            kind = "direction" if all("direction" in x for x in d) else "state"
            _v(f"optimize:model-changed-{kind}", f"optimize(objective_sense={case['sense_arg']!r}, raise_error={case['raise_error']}) "
               f"{'raised' if raised else 'returned'} and left the model changed: {d[:3]}")
    if exact.status == "optimal":
        if raised is not None:
            _v("optimize:raised-on-feasible", f"optimize raised {raised!r} although an optimum {exact.value} exists")
        if sol.status != "optimal":
            _v("optimize:missed-optimum", f"status {sol.status} although an optimum {exact.value} exists")
        flux = check_solution_optimal(spec, sol, sense, exact, known, ctx)
        # the frames follow the model's lists (which a build path may have reordered)
        if list(sol.fluxes.index) != [r.id for r in model.reactions] or list(sol.reduced_costs.index) != [r.id for r in model.reactions]:
            _v("optimize:index", f"fluxes index {list(sol.fluxes.index)} / reduced costs index {list(sol.reduced_costs.index)} but model.reactions is {[r.id for r in model.reactions]}")
        if list(sol.shadow_prices.index) != [m.id for m in model.metabolites]:
            _v("optimize:index", f"shadow price index {list(sol.shadow_prices.index)} but model.metabolites is {[m.id for m in model.metabolites]}")
        # per-object accessors reflect the most recent solve
        for r in model.reactions:
            if abs(r.flux - flux[r.id]) > 1e-9 * max(1, abs(flux[r.id])):
                _v("accessor:flux", f"{r.id}.flux {r.flux!r} vs solution {flux[r.id]!r}")
            if not observe.num_eq(r.reduced_cost, float(sol.reduced_costs[r.id]), 1e-9):
                _v("accessor:reduced_cost", f"{r.id}.reduced_cost {r.reduced_cost!r} vs solution {sol.reduced_costs[r.id]!r}")
        for m in model.metabolites:
            if not observe.num_eq(m.shadow_price, float(sol.shadow_prices[m.id]), 1e-9):
                _v("accessor:shadow_price", f"{m.id}.shadow_price {m.shadow_price!r} vs solution {sol.shadow_prices[m.id]!r}")
    else:
        if sol is not None and sol.status == "optimal":
            _v("optimize:false-optimal", f"status optimal (value {sol.objective_value!r}) but the problem is exactly {exact.status}")
        if sol is not None and case["raise_error"]:
            _v("optimize:raise_error-ignored", f"raise_error=True returned a {sol.status} solution")

    # ---- slim_optimize() ---------------------------------------------------------------------------
    ev = _exp_value(case["error_value"])
    got, sraised = None, None
    try:
        got = model.slim_optimize(error_value=ev) if case["error_value"] != "nan" or case["edit_arg"] % 2 else model.slim_optimize()
    except Exception as e:  # noqa: BLE001
        sraised = e
    if exact0.status == "optimal":
        if sraised is not None:
            _v("slim:raised-on-feasible", f"slim_optimize raised {sraised!r} although an optimum exists")
        if not isinstance(got, float) or abs(got - float(exact0.value)) > TOL * max(1.0, abs(float(exact0.value))):
            _v("slim:not-optimal", f"slim_optimize returned {got!r}, exact optimum {exact0.value} ({sense0})")
    else:
        status = model.solver.status
        if status == "optimal":
            _v("slim:false-optimal", f"solver status optimal but the problem is exactly {exact0.status}")
        if ev is None:
            want = OPTLANG_TO_EXCEPTIONS_DICT.get(status, OptimizationError)
            if sraised is None:
                _v("slim:error-not-raised", f"error_value=None returned {got!r} for a {exact0.status} problem")
            if type(sraised) is not want:
                _v("slim:wrong-exception", f"status {status} raised {type(sraised).__name__}, mapping says {want.__name__}")
        else:
            if sraised is not None:
                _v("slim:raised-despite-error-value", f"raised {sraised!r} with error_value={ev!r}")
            same = (isinstance(got, float) and math.isnan(got)) if (isinstance(ev, float) and math.isnan(ev)) else (got == ev and type(got) is type(ev))
            if not same:
                _v("slim:error-value", f"returned {got!r} instead of the caller's error value {ev!r} ({exact0.status})")
    d = observe.diff(before, observe.snapshot(model))
    if d:
        _v("slim:model-changed", f"slim_optimize changed the model: {d[:3]}")

    # ---- a returned Solution is a snapshot ----------------------------------------------------------
    if sol is not None and model.reactions:
        frozen = (sol.status, sol.objective_value, sol.fluxes.copy(), sol.reduced_costs.copy(), sol.shadow_prices.copy())
        r = model.reactions[case["edit_arg"] % len(model.reactions)]
        kind = case["edit"]
        if kind == "bounds":
            r.bounds = (0, 0)
        elif kind == "objective":
            model.objective = r
        elif kind == "remove":
            model.remove_reactions([r])
        elif kind == "direction":
            model.objective_direction = "min" if model.objective_direction == "max" else "max"
        model.slim_optimize()
        try:
            model.optimize()
        except OptimizationError:
            pass
        same = (sol.status == frozen[0] and observe.num_eq(sol.objective_value, frozen[1]) and sol.fluxes.equals(frozen[2])
                and sol.reduced_costs.equals(frozen[3]) and sol.shadow_prices.equals(frozen[4]))
        if not same:
            _v("solution:not-a-snapshot", f"Solution changed after edit '{kind}' and re-optimisation")
        classes.append(f"edit-{kind}")

    active = 0
    if exact.status == "optimal":
        active = sum(1 for x in exact.x if x != 0)
    nontrivial = exact.status != "optimal" or (exact.value != 0 and active >= 2)
    return {"nontrivial": nontrivial, "classes": classes}


def hyp_phase(ctx):
    ctx.run_hypothesis(cases(), check_case, "fba", ctx.params["max_examples"])


def phases(tier):
    if tier == "quick":
        return [Phase("hyp", hyp_phase, shards=8, params={"max_examples": 500, "budget_s": 70, "crash_journal": True, "crash_is_violation": True})]
    return [Phase("hyp", hyp_phase, shards=16, params={"max_examples": 4000, "budget_s": 540, "crash_journal": True, "crash_is_violation": True})]


CHECKS = {"fba": check_case}
