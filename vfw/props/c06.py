"""C06 - deletion analyses report the optimum of each knocked-out model."""
from __future__ import annotations

import itertools
import math

from hypothesis import strategies as st

from vfw import build, gprtree, observe, oracles, specs
from vfw.engine import Phase, PropertyViolation

PROPERTY_ID = "C06"
RULE = (
    "Generator: ModelSpecs (<=5 metabolites x 2-7 reactions, rules over 2-6 shared genes incl. nested and/or, "
    "pathway/sparse families, feasible and infeasible) x analysis (single/double gene/reaction deletion, "
    "find_essential_genes/reactions with default or explicit threshold) x argument lists (None, objects, ids, partial, "
    "second list overlapping the first) x method (fba; linear moma with the wild-type FBA solution passed explicitly) x "
    "processes (1, 2). Oracle: one row per unordered combination (set of frozensets of the product of the lists), per "
    "row the knocked-out reactions are derived from the spec's rule trees by the independent evaluator and the "
    "growth/status from an exact LP with those reactions zeroed (optimal iff an optimum exists, nan otherwise); "
    "linear MOMA growth must lie within [min,max] of the objective over the exact set of minimal-L1-distance "
    "solutions; essential sets by the documented threshold rule with a dead band; knockout accessor returns the same "
    "rows; model unchanged. Non-trivial: >=1 knock-out changes growth, >=1 does not, and a rule with both operators "
    "or a gene shared by two reactions."
)
ASSUMPTIONS = [
    "Tolerance 1e-6*max(1,|x|); essentiality only asserted for growth values farther than 1e-5*max(1,|threshold|) from the threshold.",
    "MOMA/ROOM (quadratic, MILP) methods are outside the statement; linear MOMA uses an explicitly passed reference.",
]
TOL = 1e-6


@st.composite
def cases(draw):
    spec = draw(specs.model_spec(max_mets=5, max_rxns=7, min_rxns=2, max_genes=6, min_genes=2, families=("pathway", "pathway", "sparse"),
                                 palette=draw(st.sampled_from(["zero", "zero", "finite"])), objective="nonneg", directions=("max", "max", "max", "min")))
    # one model in four lists a gene that no rule uses (left behind by a rule change or declared in a file): it is one of
    # "the model's genes" and gets its rows when the list is omitted (since seeded change C06-8)
    if draw(st.integers(0, 3)) == 0:
        spec["genes"].append({"id": "gUNUSED", "name": "", "notes": {}, "annotation": {}, "unused": True})
    return {
        "spec": spec,
        "path": draw(st.sampled_from(build.BUILD_PATHS_LP)),
        "analysis": draw(st.sampled_from(["single_gene", "single_gene", "double_gene", "single_rxn", "double_rxn", "essential_genes", "essential_rxns"])),
        # None = argument omitted (all entities); an explicitly empty list (a filter that matched nothing) requests nothing
        "l1": draw(st.one_of(st.none(), st.lists(st.integers(0, 20), min_size=1, max_size=4), st.lists(st.integers(0, 20), min_size=0, max_size=4))),
        "l2": draw(st.one_of(st.none(), st.lists(st.integers(0, 20), min_size=1, max_size=3), st.lists(st.integers(0, 20), min_size=0, max_size=3))),
        "as_ids": draw(st.booleans()),
        "container": draw(st.sampled_from(["list", "list", "dictlist"])),
        "method": draw(st.sampled_from(["fba", "fba", "fba", "linear moma"])),
        "processes": draw(st.sampled_from([1, 1, 1, 2])),
        "threshold": draw(st.sampled_from([None, None, 0.5, 1e-3, 5])),
        # genes that are already knocked out in the model the analysis is given (a knock-out background)
        "background": draw(st.sampled_from([[], [], [0], [1], [0, 3], [2, 5]])),
    }


def _v(bucket, msg):
    raise PropertyViolation(bucket, msg)


def knocked_reactions(spec, genes):
    genes = set(genes)
    return [r["id"] for r in spec["rxns"] if r["gpr"] is not None and gprtree.leaves(r["gpr"]) & genes and not gprtree.evaluate(r["gpr"], genes)]


def check_case(case, ctx):
    import cobra.flux_analysis as fa
    from cobra.exceptions import OptimizationError

    build.reset_globals()
    spec = case["spec"]
    model = build.build_model(spec, case["path"])
    analysis = case["analysis"]
    entity = "gene" if "gene" in analysis else "rxn"
    universe = [g["id"] for g in spec["genes"]] if entity == "gene" else [r["id"] for r in spec["rxns"]]
    classes = [analysis, f"method-{case['method']}", f"proc-{case['processes']}"]
    if not universe:
        return {"nontrivial": False, "classes": ["no-entities"]}
    dl = model.genes if entity == "gene" else model.reactions
    gids = [g["id"] for g in spec["genes"]]
    bg = sorted({gids[i % len(gids)] for i in case.get("background") or []}) if gids else []
    if bg:
        # the model under analysis is the one with these genes non-functional: its reactions whose rule is false are closed,
        # and a deletion closes every reaction whose rule is false without the background genes AND the deleted ones
        for g in bg:
            model.genes.get_by_id(g).knock_out()
        spec = {**spec, "rxns": [({**r, "lb": 0, "ub": 0} if not gprtree.evaluate(r["gpr"], bg) else r) for r in spec["rxns"]]}
        classes.append("~knock-out-background")
    wt, _ = oracles.fba(spec)
    before = observe.snapshot(model)

    def ko_result(ids):
        kr = knocked_reactions(spec, set(ids) | set(bg)) if entity == "gene" else list(ids)
        res, _ = oracles.fba(spec, knocked=kr)
        return res, kr

    # ---------------- essential sets ----------------------------------------------------------
    if analysis.startswith("essential"):
        fn = fa.find_essential_genes if entity == "gene" else fa.find_essential_reactions
        kw = {"processes": case["processes"]}
        if case["threshold"] is not None:
            kw["threshold"] = case["threshold"]
        raised = None
        try:
            got = fn(model, **kw)
        except OptimizationError as e:
            raised = e
        except Exception as e:  # noqa: BLE001
            _v("essential:crash", f"{fn.__name__} raised {type(e).__name__}: {str(e)[:200]}")
        d = observe.diff(before, observe.snapshot(model), limit=4)
        if d:
            _v("model-changed", f"{fn.__name__} left the model changed: {d}")
        if wt.status != "optimal" and case["threshold"] is None:
            if raised is None:
                _v("essential:no-error", f"default threshold needs the wild-type optimum, which is {wt.status}, but a set was returned")
            return {"nontrivial": False, "classes": classes + ["wt-" + wt.status]}
        if raised is not None:
            _v("essential:raised", f"{fn.__name__} raised {raised!r} on a model with an optimum")
        thr = float(case["threshold"]) if case["threshold"] is not None else float(wt.value) * 1e-2
        band = 1e-5 * max(1.0, abs(thr))
        must, may = set(), set()
        for x in universe:
            res, _ = ko_result([x])
            if res.status != "optimal":
                must.add(x)
            elif float(res.value) < thr - band:
                must.add(x)
            elif float(res.value) < thr + band:
                may.add(x)
        got_ids = {x.id for x in got}
        if any(not hasattr(x, "id") or dl.get_by_id(x.id) is not x for x in got):
            _v("essential:objects", "returned entities are not the model's objects")
        if not (must <= got_ids <= must | may):
            _v("essential:wrong-set", f"{fn.__name__}(threshold={case['threshold']}) returned {sorted(got_ids)}, exact essential set is {sorted(must)} "
                                      f"(wild-type optimum {wt.value if wt.status == 'optimal' else wt.status})")
        return {"nontrivial": bool(must) and len(must) < len(universe), "classes": classes, "undetermined": len(may)}

    # ---------------- deletions ---------------------------------------------------------------
    def mk(sel):
        if sel is None:
            return None, list(universe)
        ids = [universe[i % len(universe)] for i in sel]
        if not case["as_ids"] and case.get("container") == "dictlist":  # e.g. model.genes.query(...), a slice of model.reactions
            from cobra import DictList

            ids = list(dict.fromkeys(ids))
            return DictList(dl.get_by_id(x) for x in ids), ids
        return ([x for x in ids] if case["as_ids"] else [dl.get_by_id(x) for x in ids]), ids

    a1, ids1 = mk(case["l1"])
    double = analysis.startswith("double")
    kwargs = {"method": case["method"], "processes": case["processes"]}
    reference = None
    if case["method"] == "linear moma":
        if wt.status != "optimal":
            return {"nontrivial": False, "classes": classes + ["moma-needs-wt-optimum"]}
        ref_sol = model.optimize()
        reference = {rid: float(ref_sol.fluxes[rid]) for rid in ref_sol.fluxes.index}
        # the reference is labelled data: its entries may come in any order (a solution of a rebuilt or re-sorted model,
        # a re-indexed frame); two cases in three hand it over reversed or sorted by identifier (since seeded change C06-9)
        order = case["processes"] + len(spec["rxns"]) + len(case.get("background") or [])
        if order % 3 == 1:
            ref_sol.fluxes = ref_sol.fluxes.iloc[::-1]
            ref_sol.reduced_costs = ref_sol.reduced_costs.iloc[::-1]
            classes.append("~reference-reversed")
        elif order % 3 == 2:
            ref_sol.fluxes = ref_sol.fluxes.sort_index()
            classes.append("~reference-sorted")
        kwargs["solution"] = ref_sol
        before = observe.snapshot(model)
    if double:
        a2, ids2 = mk(case["l2"])
        if case["l2"] is None:
            ids2 = list(ids1)
        fn = fa.double_gene_deletion if entity == "gene" else fa.double_reaction_deletion
        key = "gene_list" if entity == "gene" else "reaction_list"
        call = lambda: fn(model, **{key + "1": a1, key + "2": a2}, **kwargs)  # noqa: E731
        combos = {frozenset(c) for c in itertools.product(ids1, ids2)}
    else:
        fn = fa.single_gene_deletion if entity == "gene" else fa.single_reaction_deletion
        key = "gene_list" if entity == "gene" else "reaction_list"
        call = lambda: fn(model, **{key: a1}, **kwargs)  # noqa: E731
        combos = {frozenset([x]) for x in ids1}
    try:
        frame = call()
    except Exception as e:  # noqa: BLE001
        _v("deletion:raised", f"{fn.__name__} raised {type(e).__name__}: {str(e)[:200]}")
    d = observe.diff(before, observe.snapshot(model), limit=4)
    if d:
        _v("model-changed", f"{fn.__name__} left the model changed: {d}")
    rows = [frozenset(x) for x in frame["ids"]]
    if len(rows) != len(set(rows)):
        _v("rows:duplicate", f"duplicate rows: {sorted(map(sorted, rows))}")
    if set(rows) != combos:
        _v("rows:wrong-set", f"rows {sorted(map(sorted, rows))} but the requested combinations are {sorted(map(sorted, combos))}")
    changed = same = 0
    for ids, growth, status in zip(rows, frame["growth"], frame["status"]):
        res, kr = ko_result(ids)
        growth = float(growth)
        if case["method"] == "fba":
            if res.status == "optimal":
                if status != "optimal":
                    _v("row:status", f"knock-out {sorted(ids)} (reactions {kr}) has optimum {res.value} but status {status!r}")
                if math.isnan(growth) or abs(growth - float(res.value)) > TOL * max(1.0, abs(float(res.value))):
                    _v("row:growth", f"knock-out {sorted(ids)} (reactions {kr}): growth {growth!r}, exact optimum {res.value}")
                if wt.status == "optimal":
                    if res.value != wt.value:
                        changed += 1
                    else:
                        same += 1
            else:
                if status == "optimal":
                    _v("row:status", f"knock-out {sorted(ids)} (reactions {kr}) is {res.status} but status is optimal (growth {growth!r})")
                if not math.isnan(growth):
                    _v("row:growth-not-nan", f"knock-out {sorted(ids)} (reactions {kr}) is {res.status} but growth is {growth!r}")
                changed += 1
        else:
            st_, dist, rng = oracles.linear_moma(spec, reference, knocked=kr)
            if st_ != "optimal":
                if status == "optimal":
                    _v("moma:status", f"knock-out {sorted(ids)} is {st_} but status is optimal")
                continue
            if status != "optimal":
                _v("moma:status", f"knock-out {sorted(ids)}: a minimal adjustment exists (distance {dist}) but status {status!r}")
            lo, hi = float(rng[0]), float(rng[1])
            t = 1e-5 * max(1.0, abs(lo), abs(hi))
            if math.isnan(growth) or growth < lo - t or growth > hi + t:
                _v("moma:growth", f"knock-out {sorted(ids)} (reactions {kr}): growth {growth!r} is not the objective value of any minimal-adjustment "
                                  f"solution (range [{lo}, {hi}], minimal distance {dist})")
            if dist > 0:
                changed += 1
            else:
                same += 1
    # knockout accessor
    some = sorted(rows, key=lambda s: sorted(s))[: 3]
    for ids in some:
        for form in ("ids", "objs"):
            if len(ids) == 1:
                x = next(iter(ids))
                arg = x if form == "ids" else dl.get_by_id(x)
            else:
                arg = set(ids) if form == "ids" else {dl.get_by_id(x) for x in ids}
            try:
                sub = frame.knockout[arg]
            except Exception as e:  # noqa: BLE001
                _v("accessor:raised", f"knockout[{arg!r}] raised {type(e).__name__}: {e}")
            if [frozenset(x) for x in sub["ids"]] != [ids]:
                _v("accessor:wrong-rows", f"knockout[{arg!r}] returned rows {[sorted(x) for x in sub['ids']]}")
    rules = [r["gpr"] for r in spec["rxns"] if r["gpr"] is not None]
    shared = any(sum(1 for t in rules if g in gprtree.leaves(t)) >= 2 for g in universe) if entity == "gene" else True
    rich = any(gprtree.has_both_ops(t) for t in rules) or shared
    return {"nontrivial": changed >= 1 and same >= 1 and rich, "classes": classes}


def hyp_phase(ctx):
    ctx.run_hypothesis(cases(), check_case, "deletion", ctx.params["max_examples"])


def phases(tier):
    if tier == "quick":
        return [Phase("hyp", hyp_phase, shards=8, params={"max_examples": 450, "budget_s": 70})]
    return [Phase("hyp", hyp_phase, shards=16, params={"max_examples": 1200, "budget_s": 520})]


CHECKS = {"deletion": check_case}
