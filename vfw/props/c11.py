"""C11 - JSON, YAML, dict and pickle round trips return the same model."""
from __future__ import annotations

import copy
import io
import os
import pickle
import tempfile

from hypothesis import strategies as st

from vfw import build, observe, oracles, specs
from vfw.engine import Phase, PropertyViolation

PROPERTY_ID = "C11"
RULE = (
    "Generator: ModelSpecs with rich metadata (<=5 metabolites x <=6 reactions x <=5 genes; identifiers from every "
    "class incl. leading digits, Python keywords, punctuation . - : / ' \" = [ ] @ etc., non-ASCII letters and "
    "__NN__-like substrings; names, formulas, charges incl. 0, subsystems, plain-text notes, annotation dicts with "
    "string and list values, compartments with names; bounds below/above the configured defaults, fixed, infinite; "
    "0-3 objective coefficients, max and min; nested rules) x format (to_json/from_json, save/load_json_model via path "
    "and handle with pretty on/off, to_yaml/from_yaml, save/load_yaml_model, model_to_dict/model_from_dict, pickle "
    "protocols 2-5) x sort on/off x default or non-default Configuration().bounds. Oracle: loading never raises; "
    "snapshot equality on the statement's field list (exact: none of these formats rounds), raw GLPK problem and "
    "optimum equal, a second round trip is a fixed point (same document, same snapshot), list order = model order or "
    "sorted by id with sort=True. Non-trivial: >=1 non-plain id, >=1 non-default bound, a rule of depth >=2 or an "
    "objective with direction min."
)
ASSUMPTIONS = [
    "Fields outside the statement's list are not compared for JSON/YAML/dict: groups, gene functional flags, solver "
    "interface, tolerance, model-level open contexts. Pickle is compared on the complete snapshot.",
    "Every metabolite has a compartment and every name is a string (as in C10's domain).",
]


@st.composite
def cases(draw):
    spec = draw(specs.model_spec(max_mets=5, max_rxns=6, max_genes=5, families=("sparse", "pathway"), palette="general", ids="rich",
                                 rich_meta=True, groups=True, solvers=("glpk",)))
    # bounds beyond the configured defaults
    for r in spec["rxns"]:
        k = draw(st.integers(0, 7))
        if k == 0:
            r["lb"], r["ub"] = 1500, 2000
        elif k == 1:
            r["lb"], r["ub"] = -3000, -1200
        elif k == 2:
            r["lb"], r["ub"] = -2000.5, 5000
    if draw(st.sampled_from([False, False, True])):
        specs.share_ids(draw, spec)  # identifiers shared across object kinds; one group lists the namesakes
    return {
        "spec": spec,
        "path": draw(st.sampled_from(build.BUILD_PATHS)),
        "format": draw(st.sampled_from(["json", "json", "json_path", "json_handle", "yaml", "yaml_path", "yaml_handle", "dict", "pickle"])),
        "sort": draw(st.booleans()),
        "pretty": draw(st.booleans()),
        "protocol": draw(st.sampled_from([2, 3, 4, 5])),
        "cfg_bounds": draw(st.sampled_from([None, None, None, (-10, 10), (-100000, 100000), (0, 50)])),
        # numbers that reach a model from numpy/pandas (FVA frames, solution.fluxes) are numpy scalars
        "numpy": draw(st.sampled_from([False, False, True])),
    }


def _v(bucket, msg):
    raise PropertyViolation(bucket, msg)


def roundtrip(model, fmt, sort, pretty, protocol, tmp):
    """returns (loaded model, document) - document is the serialised form (for the fixed-point check)"""
    import cobra.io as cio

    if fmt == "json":
        doc = cio.to_json(model, sort=sort)
        return cio.from_json(doc), doc
    if fmt == "json_path":
        p = os.path.join(tmp, "m.json")
        cio.save_json_model(model, p, sort=sort, pretty=pretty)
        return cio.load_json_model(p), open(p).read()
    if fmt == "json_handle":
        p = os.path.join(tmp, "mh.json")
        with open(p, "w") as fh:
            cio.save_json_model(model, fh, sort=sort, pretty=pretty)
        with open(p) as fh:
            return cio.load_json_model(fh), open(p).read()
    if fmt == "yaml":
        doc = cio.to_yaml(model, sort=sort)
        return cio.from_yaml(doc), doc
    if fmt == "yaml_path":
        p = os.path.join(tmp, "m.yml")
        cio.save_yaml_model(model, p, sort=sort)
        return cio.load_yaml_model(p), open(p).read()
    if fmt == "yaml_handle":
        p = os.path.join(tmp, "mh.yml")
        with open(p, "w") as fh:
            cio.save_yaml_model(model, fh, sort=sort)
        with open(p) as fh:
            return cio.load_yaml_model(fh), open(p).read()
    if fmt == "dict":
        d = cio.model_to_dict(model, sort=sort)
        d = copy.deepcopy(d)  # the document, detached from the model it was made from
        # a saved document is data that can be loaded any number of times: loading must not consume it, and the same
        # dictionary loaded twice gives the same model (since seeded change C11-9)
        doc = copy.deepcopy(d)
        first = cio.model_from_dict(doc)
        if doc != d:
            lost = [k for k in d if k not in doc] or [f"{lst}[{i}]: {sorted(set(a) - set(b))}" for lst in ("reactions", "metabolites", "genes")
                                                      for i, (a, b) in enumerate(zip(d.get(lst, []), doc.get(lst, []))) if a != b][:3]
            raise PropertyViolation("dict:document-changed-by-loading", f"model_from_dict changed the dictionary it was given: {lost}")
        again = cio.model_from_dict(doc)
        dd = observe.diff(observe.snapshot(first), observe.snapshot(again), limit=4)
        if dd:
            raise PropertyViolation("dict:second-load-differs", f"the same dictionary loaded twice gives different models: {dd}")
        return first, d
    doc = pickle.dumps(model, protocol=protocol)
    return pickle.loads(doc), None


def content_view(snap, full=False, sort=False):
    s = copy.deepcopy(snap)
    s.pop("interface", None)
    s["model"].pop("n_contexts", None)
    if not full:
        s.pop("groups", None)
        s["order"].pop("groups", None)
        s["model"].pop("tolerance", None)
        for g in s["genes"].values():
            g.pop("functional", None)
    if sort:
        s["order"] = {k: sorted(v) for k, v in s["order"].items()}
    return s


def compare(a, b, what, bucket):
    d = observe.diff(a, b, limit=5)
    if d:
        first = d[0].split(":")[0].strip("/").split("/")
        area = first[0]
        if len(first) >= 3 and area in ("reactions", "metabolites", "genes", "groups"):
            area += "-" + first[2].split("[")[0]
        _v(f"{bucket}:{area}", f"{what}: {d[:4]}")


def nontrivial_spec(spec):
    from vfw import gprtree
    from vfw.specs import PLAIN_ALPHA

    ids = [x["id"] for x in spec["rxns"] + spec["mets"] + spec["genes"]]
    nonplain = any(any(c not in PLAIN_ALPHA for c in i) or i[0].isdigit() for i in ids)
    nondefault = any((r["lb"], r["ub"]) not in ((0, 1000), (-1000, 1000)) for r in spec["rxns"])
    deep = any(gprtree.depth(r["gpr"]) >= 2 for r in spec["rxns"]) or spec["direction"] == "min"
    return nonplain and nondefault and deep


def check_case(case, ctx):
    import cobra

    build.reset_globals()
    spec = case["spec"]
    fmt = case["format"]
    classes = [f"format-{fmt}", f"sort-{case['sort']}", f"cfg-{case['cfg_bounds']}", f"direction-{spec['direction']}"]
    if case["cfg_bounds"] is not None:
        cobra.Configuration().bounds = case["cfg_bounds"]
    model = build.build_model(spec, case["path"])
    if case.get("numpy"):
        import numpy as np

        classes.append("numpy-scalars")
        for r in model.reactions:
            r.bounds = (np.float64(r.lower_bound), np.float64(r.upper_bound))
            r.add_metabolites({m: np.float64(c) for m, c in r.metabolites.items()}, combine=False)
        for m in model.metabolites:
            if m.charge is not None:
                m.charge = np.float64(m.charge)
    sort = case["sort"] and fmt != "pickle"
    full = fmt == "pickle"
    s0 = observe.snapshot(model)
    with tempfile.TemporaryDirectory(prefix="vfw-c11-") as tmp:
        try:
            m1, doc1 = roundtrip(model, fmt, sort, case["pretty"], case["protocol"], tmp)
        except PropertyViolation:
            raise
        except Exception as e:  # noqa: BLE001
            import traceback

            frames = [f for f in traceback.extract_tb(e.__traceback__) if "/cobra/" in f.filename]
            where = f"{os.path.basename(frames[-1].filename)}:{frames[-1].name}" if frames else "?"
            kind = "load-or-save-raised"
            if "direction-lost" in ctx.known and False:
                pass
            _v(f"{kind}:{type(e).__name__}:{where}", f"{fmt} round trip raised {type(e).__name__}: {str(e)[:200]}")
        compare(s0, observe.snapshot(model), f"{fmt} export changed the model", "export-changed-model")
        s1 = observe.snapshot(m1)
        a, b = content_view(s0, full, sort), content_view(s1, full, sort)
        if "direction-not-serialised" in ctx.known and not full and spec["direction"] == "min":
            # known finding: JSON/YAML/dict carry no objective direction; evaluated in its known-deviant form
            ctx.excluded_by("direction-not-serialised")
            a["direction"] = "max"
            a["glpk"]["direction"] = "max"
        compare(a, b, f"model loaded from {fmt} differs from the saved one (saved != loaded)", "not-the-same-model")
        if sort:
            for k in ("reactions", "metabolites", "genes"):
                if s1["order"][k] != sorted(s1["order"][k]):
                    _v("sort-ignored", f"sort=True but {k} order is {s1['order'][k]}")
        va, vb = model.slim_optimize(), m1.slim_optimize()
        if not ("direction-not-serialised" in ctx.known and not full and spec["direction"] == "min"):
            if not observe.num_eq(va, vb, 1e-9):
                _v("optimum-differs", f"optimum {va!r} before, {vb!r} after the {fmt} round trip")
        # second round trip: fixed point
        try:
            m2, doc2 = roundtrip(m1, fmt, sort, case["pretty"], case["protocol"], tmp)
        except Exception as e:  # noqa: BLE001
            _v("second-roundtrip-raised", f"second {fmt} round trip raised {type(e).__name__}: {str(e)[:200]}")
        compare(content_view(s1, full, sort), content_view(observe.snapshot(m2), full, sort), f"second {fmt} round trip changed the model", "not-a-fixed-point")
        if fmt.startswith("json") or fmt == "dict":
            import json as _json

            p1 = _json.loads(doc1) if isinstance(doc1, str) else _json.loads(_json.dumps(doc1))
            p2 = _json.loads(doc2) if isinstance(doc2, str) else _json.loads(_json.dumps(doc2))
            dd = observe.diff(p1, p2, limit=4)  # numeric equality: 1500 and 1500.0 are the same value
            if dd:
                _v("document-not-a-fixed-point", f"second {fmt} export differs from the first one: {dd}")
    return {"nontrivial": nontrivial_spec(spec), "classes": classes}


def hyp_phase(ctx):
    ctx.run_hypothesis(cases(), check_case, "roundtrip", ctx.params["max_examples"])


def phases(tier):
    if tier == "quick":
        return [Phase("hyp", hyp_phase, shards=8, params={"max_examples": 450, "budget_s": 70})]
    return [Phase("hyp", hyp_phase, shards=16, params={"max_examples": 1500, "budget_s": 520})]


CHECKS = {"roundtrip": check_case}
