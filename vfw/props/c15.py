"""C15 - identifier-indexed lists (DictList) stay coherent under every list operation.

Model-based: every generated operation is applied to a cobra DictList and to a plain Python list
with a uniqueness rule; after every step all public lookups are audited against the list.
"""
from __future__ import annotations

import copy
import itertools
import pickle
import re

from hypothesis import strategies as st

from vfw.engine import Phase, PropertyViolation

PROPERTY_ID = "C15"
RULE = (
    "Generator: initial list of 0-6 objects drawn from a pool of 18 cobra Objects over 6 identifiers "
    "(3 distinct objects per id, so duplicates and same-id-different-object are frequent) followed by 1-30 "
    "operations (append, insert, extend, +=, -=, +, -, add, union, item/slice assignment and deletion incl. "
    "extended slices, pop, remove, sort, reverse, copy, deepcopy, pickle, slicing, query, get_by_any, "
    "boolean mask, constructor, list_attr, single-argument get_by_any incl. unsupported types, attribute access by id, dir) with every integer argument in [-len-2, len+2]; thorough tier adds the "
    "exhaustive enumeration of all sequences of <=3 index-bearing operations on lists of length <=3. "
    "Oracle: plain Python list + uniqueness rule, audited after every step through get_by_id/index/in/has_id/"
    "iteration/len. Non-trivial: the trace contains a negative or out-of-range index, or an operation that "
    "raised followed by at least one further operation; distinct by canonical hash of (init, ops)."
)
ASSUMPTIONS = [
    "DictList 'behaves like a list' (class docstring): Python list semantics define index arithmetic "
    "(negative indices, clamping in insert and slices).",
    "Where the result of a slice assignment has unique ids but re-uses an id from the replaced part, both "
    "'succeeds with the list result' and 'raises and leaves the list unchanged' are accepted.",
    "The exception type of a failing operation is not constrained, only that it raises and changes nothing.",
]

IDS = ["a", "b", "c", "ab", "ba", "B"]
NPOOL = 18


def _pool():
    from cobra.core.object import Object

    return [Object(IDS[k % len(IDS)]) for k in range(NPOOL)]


# ------------------------------------------------------------------------------------------
# strategies (pure data)
# ------------------------------------------------------------------------------------------
_obj = st.integers(0, NPOOL - 1)
_idx = st.integers(-9, 9)  # reduced modulo the current range [-len-2, len+2] at execution time
_objs = st.lists(_obj, min_size=0, max_size=4)
_opt_idx = st.one_of(st.none(), _idx)
_step = st.sampled_from([None, None, 1, 2, -1, -2, 3])


def _op_strategy():
    return st.one_of(
        st.tuples(st.just("append"), _obj),
        st.tuples(st.just("insert"), _idx, _obj),
        st.tuples(st.just("extend"), _objs),
        st.tuples(st.just("iadd"), _objs),
        st.tuples(st.just("add"), _obj),
        st.tuples(st.just("union"), _objs),
        st.tuples(st.just("setitem"), _idx, _obj),
        st.tuples(st.just("setslice"), _opt_idx, _opt_idx, _step, _objs),
        st.tuples(st.just("delitem"), _idx),
        st.tuples(st.just("delslice"), _opt_idx, _opt_idx, _step),
        st.tuples(st.just("pop"), _opt_idx),
        st.tuples(st.just("remove"), st.sampled_from(["el", "el_id", "pool", "pool_id"]), _idx),
        st.tuples(st.just("isub"), st.lists(st.tuples(st.sampled_from(["el", "el_id", "pool", "pool_id"]), _idx), max_size=3)),
        st.tuples(st.just("sort"), st.booleans(), st.sampled_from(["none", "rev", "len"])),
        st.tuples(st.just("reverse")),
        st.tuples(st.just("copy"), st.sampled_from(["copy", "deepcopy", "pickle", "ctor", "slice_all"])),
        st.tuples(st.just("plus"), _objs),
        st.tuples(st.just("minus"), st.lists(st.tuples(st.sampled_from(["el", "el_id", "pool"]), _idx), max_size=3)),
        st.tuples(st.just("getslice"), _opt_idx, _opt_idx, _step),
        st.tuples(st.just("query"), st.sampled_from(["regex", "callable", "attr", "compiled"]), st.sampled_from(["a", "b", "^a", "[bB]", "c$"])),
        st.tuples(st.just("get_by_any"), st.lists(st.tuples(st.sampled_from(["int", "el_id", "el", "pool_id"]), _idx), max_size=3)),
        st.tuples(st.just("mask"), st.lists(st.booleans(), min_size=8, max_size=8)),
        st.tuples(st.just("ctor"), _objs),
        st.tuples(st.just("list_attr")),
        st.tuples(st.just("get_by_any1"), st.sampled_from(["int", "el_id", "el", "pool_id", "bad_float", "bad_none"]), _idx),
        st.tuples(st.just("getattr"), st.sampled_from(["el_id", "pool_id"]), _idx),
        st.tuples(st.just("dir")),
    )


def strategy(max_ops=30):
    return st.fixed_dictionaries({
        "init": st.lists(_obj, max_size=6),
        "ops": st.lists(_op_strategy(), min_size=1, max_size=max_ops),
    })


# ------------------------------------------------------------------------------------------
# executor + oracle
# ------------------------------------------------------------------------------------------
def _uniq(objs):
    ids = [o.id for o in objs]
    return len(ids) == len(set(ids))


def _norm_idx(raw, n):
    """Map a drawn integer onto [-n-2, n+2]. Returns (index, interesting)"""
    if raw is None:
        return None, False
    span = 2 * (n + 2) + 1
    i = (raw + 9) % span - (n + 2)
    return i, (i < 0 or i >= n)


class _Run:
    def __init__(self, case):
        from cobra.core.dictlist import DictList

        self.DictList = DictList
        self.pool = _pool()
        init = []
        for k in case["init"]:
            if all(self.pool[k].id != o.id for o in init):
                init.append(self.pool[k])
        self.ref = list(init)
        self.dl = DictList(init)
        self.others = []  # (dictlist, frozen reference list) that must stay untouched
        self.interesting_index = False
        self.raised_then_continued = False
        self._raised = False
        self.classes = set()

    # ---- audit ------------------------------------------------------------------------------
    def audit(self, dl, ref, where):
        def bad(kind, msg):
            raise PropertyViolation(f"{where}:{kind}", f"{msg}; list ids={[o.id for o in ref]}")

        items = list(list.__iter__(dl))
        if len(dl) != len(ref) or len(items) != len(ref) or any(a is not b for a, b in zip(items, ref)):
            bad("content", f"content differs from model: got {[getattr(o, 'id', o) for o in items]}")
        for i, o in enumerate(ref):
            try:
                g = dl.get_by_id(o.id)
            except Exception as e:  # noqa: BLE001
                bad("lookup", f"get_by_id({o.id!r}) raised {type(e).__name__} for element at {i}")
            if g is not o:
                bad("lookup", f"get_by_id({o.id!r}) is not the element at position {i}")
            try:
                ok = dl.index(o.id) == i and dl.index(o) == i
            except Exception as e:  # noqa: BLE001
                bad("lookup", f"index() raised {type(e).__name__} for element {o.id!r} at {i}")
            if not ok:
                bad("lookup", f"index({o.id!r}) != {i}")
            if not (o in dl and o.id in dl and dl.has_id(o.id)):
                bad("lookup", f"membership of {o.id!r} at {i} denied")
            if dl[i] is not o:
                bad("lookup", f"dl[{i}] is not the element")
        present = {o.id for o in ref}
        for gid in IDS:
            if gid in present:
                continue
            if dl.has_id(gid) or gid in dl:
                bad("ghost", f"absent id {gid!r} reported present")
            try:
                dl.index(gid)
                bad("ghost", f"index({gid!r}) succeeded for absent id")
            except ValueError:
                pass
            try:
                dl.get_by_id(gid)
                bad("ghost", f"get_by_id({gid!r}) succeeded for absent id")
            except KeyError:
                pass

    def audit_all(self, where):
        self.audit(self.dl, self.ref, where)
        for dl, ref in self.others:
            self.audit(dl, ref, where + ":aliasing")

    # ---- selection ---------------------------------------------------------------------------
    def sel(self, kind, raw):
        n = len(self.ref)
        if kind in ("el", "el_id", "int"):
            if n == 0:
                return self.pool[raw % NPOOL] if kind == "el" else (self.pool[raw % NPOOL].id if kind == "el_id" else 0)
            o = self.ref[raw % n]
            return o if kind == "el" else (o.id if kind == "el_id" else raw % n)
        o = self.pool[raw % NPOOL]
        return o if kind == "pool" else o.id

    def present(self, x):
        """Is x (object or id string) removable: string id present, or the very object present."""
        if isinstance(x, str):
            return any(o.id == x for o in self.ref)
        return any(o is x for o in self.ref)

    # ---- expected-outcome helpers --------------------------------------------------------------
    def expect(self, name, fn, new_ref, must_raise, may_raise=False):
        """Apply fn to the SUT. new_ref is the model result when it succeeds."""
        try:
            ret = fn()
            raised = None
        except Exception as e:  # noqa: BLE001
            raised, ret = e, None
        if raised is not None:
            self._raised = True
            if not (must_raise or may_raise):
                # is the state at least intact? report the more specific problem
                raise PropertyViolation(f"{name}:unexpected-raise",
                                        f"{name} raised {type(raised).__name__}: {raised} but a list accepts it; "
                                        f"ids={[o.id for o in self.ref]}")
            self.audit(self.dl, self.ref, f"{name}:state-after-raise")
            return None
        if must_raise:
            raise PropertyViolation(f"{name}:missing-raise", f"{name} succeeded although it must raise; ids={[o.id for o in self.ref]}")
        self.ref = new_ref
        return ret

    def step(self, op):
        name = op[0]
        ref, dl, n = self.ref, self.dl, len(self.ref)
        if self._raised:
            self.raised_then_continued = True
        ids = {o.id for o in ref}
        self.classes.add(name)

        def ix(raw):
            i, intr = _norm_idx(raw, n)
            if intr:
                self.interesting_index = True
            return i

        if name == "append":
            x = self.pool[op[1]]
            self.expect(name, lambda: dl.append(x), ref + [x], x.id in ids)
        elif name == "insert":
            i, x = ix(op[1]), self.pool[op[2]]
            new = list(ref)
            new.insert(i, x)
            self.expect(name, lambda: dl.insert(i, x), new, x.id in ids)
        elif name in ("extend", "iadd", "add"):
            xs = [self.pool[op[1]]] if name == "add" else [self.pool[k] for k in op[1]]
            new = ref + xs

            def f():
                if name == "extend":
                    dl.extend(xs)
                elif name == "add":
                    dl.add(xs[0])
                else:
                    r = dl
                    r += xs
                    if r is not dl:
                        raise PropertyViolation("iadd:identity", "+= returned another object")

            self.expect(name, f, new, not _uniq(new))
        elif name == "union":
            xs = [self.pool[k] for k in op[1]]
            new = list(ref)
            for x in xs:
                if all(o.id != x.id for o in new):
                    new.append(x)
            self.expect(name, lambda: dl.union(xs), new, False)
        elif name == "setitem":
            i, x = ix(op[1]), self.pool[op[2]]
            if not -n <= i < n:
                self.expect(name, lambda: dl.__setitem__(i, x), None, True)
            else:
                new = list(ref)
                new[i] = x
                self.expect(name, lambda: dl.__setitem__(i, x), new, not _uniq(new))
        elif name == "setslice":
            a, b, s = ix(op[1]), ix(op[2]), op[3]
            xs = [self.pool[k] for k in op[4]]
            sl = slice(a, b, s)
            new = list(ref)
            try:
                new[sl] = xs
                list_ok = True
            except ValueError:
                list_ok = False
            if not list_ok:
                self.expect(name, lambda: dl.__setitem__(sl, xs), None, True)
            else:
                must = not _uniq(new)
                replaced_ids = {o.id for o in ref[sl]}
                may = any(x.id in replaced_ids for x in xs)
                self.expect(name, lambda: dl.__setitem__(sl, xs), new, must, may_raise=may)
        elif name == "delitem":
            i = ix(op[1])
            if not -n <= i < n:
                self.expect(name, lambda: dl.__delitem__(i), None, True)
            else:
                new = list(ref)
                del new[i]
                self.expect(name, lambda: dl.__delitem__(i), new, False)
        elif name == "delslice":
            sl = slice(ix(op[1]), ix(op[2]), op[3])
            new = list(ref)
            del new[sl]
            self.expect(name, lambda: dl.__delitem__(sl), new, False)
        elif name == "pop":
            i = ix(op[1])
            if n == 0 or (i is not None and not -n <= i < n):
                self.expect(name, (lambda: dl.pop()) if i is None else (lambda: dl.pop(i)), None, True)
            else:
                new = list(ref)
                want = new.pop() if i is None else new.pop(i)
                got = self.expect(name, (lambda: dl.pop()) if i is None else (lambda: dl.pop(i)), new, False)
                if got is not want:
                    raise PropertyViolation("pop:wrong-result", f"pop({i}) returned {getattr(got, 'id', got)!r}, list gives {want.id!r}")
        elif name == "remove":
            x = self.sel(op[1], op[2])
            if self.present(x):
                xid = x if isinstance(x, str) else x.id
                self.expect(name, lambda: dl.remove(x), [o for o in ref if o.id != xid], False)
            else:
                self.expect(name, lambda: dl.remove(x), None, True)
        elif name == "isub":
            xs = [self.sel(k, r) for k, r in op[1]]
            new, ok = list(ref), True
            for x in xs:
                hit = [o for o in new if (o.id == x if isinstance(x, str) else o is x)]
                if not hit:
                    ok = False
                    break
                new.remove(hit[0])

            def f():
                r = dl
                r -= xs
                if r is not dl:
                    raise PropertyViolation("isub:identity", "-= returned another object")

            self.expect(name, f, new if ok else None, not ok)
        elif name == "sort":
            rev, keyk = op[1], op[2]
            key = {"none": None, "rev": (lambda o: o.id[::-1]), "len": (lambda o: (len(o.id), o.id))}[keyk]
            new = sorted(ref, key=key or (lambda o: o.id), reverse=rev)
            self.expect(name, lambda: dl.sort(key=key, reverse=rev), new, False)
        elif name == "reverse":
            self.expect(name, lambda: dl.reverse(), ref[::-1], False)
        elif name == "copy":
            how = op[1]
            try:
                if how == "copy":
                    new_dl = copy.copy(dl)
                elif how == "deepcopy":
                    new_dl = copy.deepcopy(dl)
                elif how == "pickle":
                    new_dl = pickle.loads(pickle.dumps(dl))
                elif how == "ctor":
                    new_dl = self.DictList(dl)
                else:
                    new_dl = dl[:]
            except Exception as e:  # noqa: BLE001
                raise PropertyViolation(f"copy-{how}:unexpected-raise", f"{how} raised {type(e).__name__}: {e}")
            if not isinstance(new_dl, self.DictList) or new_dl is dl:
                raise PropertyViolation(f"copy-{how}:type", f"{how} did not return a new DictList")
            items = list(list.__iter__(new_dl))
            if [o.id for o in items] != [o.id for o in ref]:
                raise PropertyViolation(f"copy-{how}:content", f"{how} changed ids: {[o.id for o in items]} vs {[o.id for o in ref]}")
            if how in ("deepcopy", "pickle"):
                if any(a is b for a, b in zip(items, ref)):
                    raise PropertyViolation(f"copy-{how}:content", "deep copy shares element objects")
                new_ref = items
            else:
                if any(a is not b for a, b in zip(items, ref)):
                    raise PropertyViolation(f"copy-{how}:content", "shallow copy holds other objects")
                new_ref = list(ref)
            # continue on the copy; the original must never change again
            if len(self.others) < 3:
                self.others.append((dl, list(ref)))
            self.dl, self.ref = new_dl, new_ref
        elif name == "plus":
            xs = [self.pool[k] for k in op[1]]
            new = ref + xs
            try:
                res = dl + xs
                raised = False
            except Exception:  # noqa: BLE001
                raised = True
            if raised != (not _uniq(new)):
                raise PropertyViolation("plus:outcome", f"+ raised={raised} but uniqueness of result={_uniq(new)}")
            if not raised:
                self.audit(res, new, "plus:result")
        elif name == "minus":
            xs = [self.sel(k, r) for k, r in op[1]]
            new, ok = list(ref), True
            for x in xs:
                hit = [o for o in new if (o.id == x if isinstance(x, str) else o is x)]
                if not hit:
                    ok = False
                    break
                new.remove(hit[0])
            try:
                res = dl - xs
                raised = False
            except Exception:  # noqa: BLE001
                raised = True
            if raised != (not ok):
                raise PropertyViolation("minus:outcome", f"- raised={raised}, model says removable={ok}")
            if not raised:
                self.audit(res, new, "minus:result")
        elif name == "getslice":
            sl = slice(ix(op[1]), ix(op[2]), op[3])
            try:
                res = dl[sl]
            except Exception as e:  # noqa: BLE001
                raise PropertyViolation("getslice:unexpected-raise", f"dl[{sl}] raised {type(e).__name__}: {e}")
            if not isinstance(res, self.DictList):
                raise PropertyViolation("getslice:type", "slice is not a DictList")
            self.audit(res, ref[sl], "getslice:result")
        elif name == "query":
            how, pat = op[1], op[2]
            want = [o for o in ref if re.findall(pat, o.id)]
            try:
                if how == "regex":
                    res = dl.query(pat)
                elif how == "compiled":
                    res = dl.query(re.compile(pat))
                elif how == "attr":
                    res = dl.query(pat, "id")
                else:
                    res = dl.query(lambda o: bool(re.findall(pat, o.id)))
            except Exception as e:  # noqa: BLE001
                raise PropertyViolation("query:unexpected-raise", f"query({how},{pat!r}) raised {type(e).__name__}: {e}")
            self.audit(res, want, "query:result")
        elif name == "get_by_any":
            if n == 0:
                return
            sels, want = [], []
            for k, r in op[1]:
                if k == "pool_id":
                    continue
                x = self.sel(k, r)
                sels.append(x)
                want.append(ref[x] if isinstance(x, int) else next(o for o in ref if (o.id == x if isinstance(x, str) else o is x)))
            try:
                got = dl.get_by_any(sels)
            except Exception as e:  # noqa: BLE001
                raise PropertyViolation("get_by_any:unexpected-raise", f"get_by_any raised {type(e).__name__}: {e}")
            if len(got) != len(want) or any(a is not b for a, b in zip(got, want)):
                raise PropertyViolation("get_by_any:wrong-result", f"get_by_any({sels!r}) wrong")
        elif name == "mask":
            if n == 0:
                return
            mask = op[1][:n] if n <= 8 else (op[1] * 2)[:n]
            try:
                res = dl[mask]
            except Exception as e:  # noqa: BLE001
                raise PropertyViolation("mask:unexpected-raise", f"boolean mask raised {type(e).__name__}: {e}")
            self.audit(res, [o for o, m in zip(ref, mask) if m], "mask:result")
        elif name == "ctor":
            xs = [self.pool[k] for k in op[1]]
            try:
                res = self.DictList(xs)
                raised = False
            except Exception:  # noqa: BLE001
                raised = True
            if raised != (not _uniq(xs)):
                raise PropertyViolation("ctor:outcome", f"DictList(iterable) raised={raised}, unique={_uniq(xs)}")
            if not raised:
                self.audit(res, xs, "ctor:result")
        elif name == "list_attr":
            try:
                got = dl.list_attr("id")
            except Exception as e:  # noqa: BLE001
                raise PropertyViolation("list_attr:unexpected-raise", f"list_attr raised {type(e).__name__}: {e}")
            if got != [o.id for o in ref]:
                raise PropertyViolation("list_attr:wrong-result", f"list_attr('id') gave {got!r}")
        elif name == "get_by_any1":
            # the documented single-argument form: an index, an identifier or an element that is not wrapped in a list
            kind = op[1]
            if kind.startswith("bad"):
                x, want = (1.5 if kind == "bad_float" else None), None
            elif kind == "int":
                x = ix(op[2])
                want = ref[x] if -n <= x < n else None
            else:
                x = self.sel(kind, op[2])
                want = next((o for o in ref if (o.id == x if isinstance(x, str) else o is x)), None)
            try:
                got = dl.get_by_any(x)
                raised = None
            except Exception as e:  # noqa: BLE001
                raised, got = e, None
            if want is None:
                if raised is None:
                    raise PropertyViolation("get_by_any1:missing-raise", f"get_by_any({x!r}) returned {got!r} for something the list does not hold")
                self._raised = True
            elif raised is not None:
                raise PropertyViolation("get_by_any1:unexpected-raise", f"get_by_any({x!r}) raised {type(raised).__name__}: {raised}")
            elif not (isinstance(got, list) and len(got) == 1 and got[0] is want):
                raise PropertyViolation("get_by_any1:wrong-result", f"get_by_any({x!r}) wrong: {got!r}")
        elif name == "getattr":
            x = self.sel(op[1], op[2])
            want = next((o for o in ref if o.id == x), None)
            try:
                got = getattr(dl, x)
                raised = None
            except AttributeError as e:
                raised, got = e, None
            except Exception as e:  # noqa: BLE001
                raise PropertyViolation("getattr:unexpected-raise", f"attribute access by id {x!r} raised {type(e).__name__}: {e}")
            if want is None and raised is None:
                raise PropertyViolation("getattr:ghost", f"attribute access found absent id {x!r}")
            if want is not None and got is not want:
                raise PropertyViolation("getattr:lookup", f"attribute access by id {x!r} did not return the element")
        elif name == "dir":
            listed = set(dir(dl)) & set(IDS)
            if listed != ids:
                raise PropertyViolation("dir:wrong-result", f"dir() lists ids {sorted(listed)}, list holds {sorted(ids)}")
        else:  # pragma: no cover
            raise AssertionError(op)
        self.audit_all(f"{name}:after")


def check_trace(case, ctx):
    run = _Run(case)
    run.audit_all("init")
    for op in case["ops"]:
        run.step(tuple(op))
    classes = sorted(run.classes)
    if run.interesting_index:
        classes.append("~edge-index")
    if run.raised_then_continued:
        classes.append("~raise-then-continue")
    if run.others:
        classes.append("~copied")
    return {"nontrivial": run.interesting_index or run.raised_then_continued, "classes": classes}


# ------------------------------------------------------------------------------------------
# exhaustive small scope
# ------------------------------------------------------------------------------------------
# pool indices: 0..5 have ids a,b,c,ab,ba,B ; 6 has id 'a' again (other object), 7 -> 'b'
def _enum_ops(n_max):
    """All index-bearing ops with raw indices covering [-n-2, n+2] for n <= n_max (+growth)."""
    raws = list(range(-9, 10))  # _norm_idx maps them onto the whole range for n <= 7 (span <= 19)
    ops = []
    for r in raws:
        for o in (3, 6, 0):  # fresh id 'ab', second object with id 'a', the pool object 'a' itself
            ops.append(("insert", r, o))
            ops.append(("setitem", r, o))
        ops.append(("delitem", r))
        ops.append(("pop", r))
    ops.append(("pop", None))
    for o in (3, 6):
        ops.append(("append", o))
    ops.append(("extend", [4, 6]))
    ops.append(("extend", [4, 5]))
    ops.append(("isub", [["el", 0], ["pool", 7]]))
    ops.append(("setslice", 1, None, None, [4, 6]))
    ops.append(("setslice", -8, 1, None, [4]))
    ops.append(("delslice", -8, None, 2))
    return ops


def _dedup_by_effect(ops, n):
    """Several raw indices map to the same effective index for small n; keep one each (first step only)."""
    seen, out = set(), []
    for op in ops:
        key = (op[0],) + tuple((_norm_idx(a, n)[0] if isinstance(a, int) and op[0] in ("insert", "setitem", "delitem", "pop") and j == 1 else repr(a)) for j, a in enumerate(op[1:], 1))
        if key not in seen:
            seen.add(key)
            out.append(op)
    return out


def enum_phase(ctx):
    depth = ctx.params["depth"]
    all_ops = _enum_ops(3)
    inits = [[], [0], [0, 1], [0, 1, 2]]
    firsts = [(init, op) for init in inits for op in _dedup_by_effect(all_ops, len(init))]
    mine = [f for k, f in enumerate(firsts) if k % ctx.n_shards == ctx.shard]

    def cases():
        for init, first in mine:
            yield {"init": init, "ops": [first]}
            if depth >= 2:
                for tail in itertools.product(all_ops, repeat=1):
                    yield {"init": init, "ops": [first, *tail]}
            if depth >= 3:
                for tail in itertools.product(all_ops, repeat=2):
                    yield {"init": init, "ops": [first, *tail]}

    done = ctx.run_enumeration(cases(), check_trace, "trace")
    ctx.exhaustive = bool(done)


def hyp_phase(ctx):
    ctx.run_hypothesis(strategy(ctx.params["max_ops"]), check_trace, "trace", ctx.params["max_examples"])


def fuzz_phase(ctx):
    from vfw import fuzz

    if not fuzz.available():
        ctx.notes.append("atheris not installed next to /venv (setup.sh installs it into /verif/.deps): campaign skipped")
        return
    fuzz.campaign(ctx, strategy(ctx.params["max_ops"]), check_trace, "trace", ctx.params["runs"], [])


def phases(tier):
    if tier == "quick":
        return [
            Phase("hyp", hyp_phase, shards=6, params={"max_examples": 700, "max_ops": 25, "budget_s": 60}),
            Phase("enum", enum_phase, shards=2, params={"depth": 2, "budget_s": 60}),
        ]
    return [
        Phase("hyp", hyp_phase, shards=16, params={"max_examples": 8000, "max_ops": 30, "budget_s": 300}),
        Phase("enum", enum_phase, shards=16, params={"depth": 3, "budget_s": 540}),
        Phase("atheris", fuzz_phase, shards=8, params={"max_ops": 30, "runs": 40000, "budget_s": 200, "instrument": ["cobra.core.dictlist"]}),
    ]


CHECKS = {"trace": check_trace}
