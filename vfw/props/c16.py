"""C16 - every flux sample is a feasible flux distribution."""
from __future__ import annotations

import hashlib
import math
from fractions import Fraction as F

from hypothesis import strategies as st

from vfw import build, observe, oracles, specs
from vfw.engine import Phase, PropertyViolation

PROPERTY_ID = "C16"
RULE = (
    "Generator: feasible pathway-family ModelSpecs (2-4 metabolites x 3-7 reactions, finite bounds: <= 100, uptake up "
    "to 1000), extra boundary reactions so that ~90% of the flux polytopes have exact dimension >= 2 (points and "
    "segments kept as a minority), post-processed with 0-2 modifications placed on a 1/4 grid inside the exact flux "
    "ranges so that the model stays feasible: forced flux (lb>0 or ub<0), flux fixed at a non-zero value or at 0, user "
    "linear constraints over 1-3 net fluxes (one-sided, two-sided, equality with zero or non-zero right side) x "
    "method (achr, optgp) x entry point (sample(), sampler.sample, sampler.batch with 2-3 batches) x fluxes "
    "True/False x n 1-30 x thinning {1,3,10} x nproj {default,1,2,7,100} x seed (small, 31-bit, > 2^31) x processes "
    "{1,2,3} (optgp; pools in ~15% of the cases); 3% of the models get an integer variable. Oracle: numpy check "
    "computed from the spec only: max|S v| <= 1e-6, lb-1e-6 <= v <= ub+1e-6, user rows within 1e-6; variable-space "
    "frames: each forward/reverse variable within the bounds of the documented split, and fwd-rev passes the "
    "flux-space check; row count n (optgp: ceil(n/processes)*processes) per frame, columns = reaction ids in model "
    "order (variable names in model order); a second run with the same seed (same model object or a freshly built "
    "one) gives the identical frame; sampler.validate returns 'v' for rows whose independent residual is <= 1e-8 "
    "and, in one call on a feasible row plus copies the harness pushes 1e-3 below a lower bound / above an upper "
    "bound / off steady state / (variable space) beyond a user inequality, 'v' for the feasible row and a code "
    "containing l / u / e / l-or-u for the copies (exactly 'e' in flux space when the push stays strictly inside the "
    "bounds); model snapshot unchanged after every run; ValueError accepted only for polytopes of exact dimension "
    "<= 1 or regions that exclude the origin (documented refusals: single point / inhomogeneous problem), TypeError "
    "required exactly for models with an integer variable; any other exception is reported. Non-trivial: >= 5 "
    "pairwise distinct sample rows on a polytope whose exact dimension (n - rank of all explicit and implicit "
    "equalities, implicit ones found by exact LP) is >= 2."
)
ASSUMPTIONS = [
    "Absolute tolerance 1e-6 on steady state, flux bounds and user constraints (the sampler works with model.tolerance = 1e-7 "
    "per solver variable; one order of slack for the forward-reverse difference and row sums).",
    "validate() is only required to answer 'v' for rows whose independent residuals are <= 1e-8 and to flag rows the harness "
    "moved by 1e-3 (10^4 x tolerance); rows between are not asserted (counted as undetermined).",
    "A ValueError is a documented refusal ('flux cone contains a single point or the problem is inhomogeneous') when the exact "
    "polytope dimension is <= 1 or the region does not contain the origin; a ValueError on a region of dimension >= 2 that "
    "contains the origin, a RuntimeError ('cannot escape sampling region') or any other exception is reported, because the "
    "statement promises the requested number of samples for every feasible finite model.",
    "Same seed => identical frame is required bit for bit (same process, same numpy/GLPK calls); nothing is required of "
    "different seeds.",
    "Feasibility is decided for the samples drawn, not for every sample that could be drawn; models are small and well "
    "conditioned, so drift of long chains on genome-scale models (what nproj exists for) is out of reach.",
    "Known-finding switches: 'two-warmup-points-off-origin' accepts the RuntimeError only when the region excludes the origin "
    "and the sampler's own warmup matrix is two points plus an infeasible 0.25*(w1+w2); 'validate-varspace-inequalities' "
    "skips validate() on variable-space frames of models with user inequality constraints.",
]
SIG_TWO_POINTS = "two-warmup-points-off-origin"
SIG_VALIDATE = "validate-varspace-inequalities"
TOL = 1e-6
CLEAR = 1e-8
PUSH = 1e-3
INF = float("inf")


# ------------------------------------------------------------------------------------------
# exact helpers (spec side)
# ------------------------------------------------------------------------------------------
def _ranges(spec):
    """Exact (lo, hi) of every net flux over the polytope of the spec, or None if the spec is infeasible."""
    flp = oracles.FluxLP(spec)
    solver = flp.solver()
    if not solver.feasible:
        return None, None
    out = []
    for j in range(flp.n):
        lo, hi = solver.solve({j: F(1)}, "min"), solver.solve({j: F(1)}, "max")
        out.append((lo.value, hi.value))
    return out, (flp, solver)


def _row_range(flp, solver, coefs):
    c = {flp.idx[rid]: F(k) for rid, k in coefs.items()}
    lo, hi = solver.solve(c, "min"), solver.solve(c, "max")
    return lo.value, hi.value


def _rank(rows, n):
    rows = [list(r) for r in rows]
    rank, col = 0, 0
    while rank < len(rows) and col < n:
        piv = next((i for i in range(rank, len(rows)) if rows[i][col] != 0), None)
        if piv is None:
            col += 1
            continue
        rows[rank], rows[piv] = rows[piv], rows[rank]
        p = rows[rank][col]
        for i in range(rank + 1, len(rows)):
            if rows[i][col] != 0:
                f = rows[i][col] / p
                rows[i] = [a - f * b for a, b in zip(rows[i], rows[rank])]
        rank += 1
        col += 1
    return rank


def polytope_dimension(spec):
    """Exact dimension of {v : S v = 0, lb <= v <= ub, user rows}; None if empty."""
    ranges, aux = _ranges(spec)
    if ranges is None:
        return None
    flp, solver = aux
    n = flp.n
    rows = []
    for m in spec["mets"]:
        rows.append([F(0) if r["mets"].get(m["id"], 0) == 0 else oracles.frac(r["mets"][m["id"]]) for r in spec["rxns"]])
    for j, (lo, hi) in enumerate(ranges):
        if lo == hi:
            rows.append([F(1) if k == j else F(0) for k in range(n)])
    for c in spec.get("cons", []):
        lo, hi = _row_range(flp, solver, c["coefs"])
        if lo == hi:
            rows.append([oracles.frac(c["coefs"].get(rid, 0)) for rid in flp.rids])
    return n - _rank(rows, n)


def _grid(x: F) -> F:
    """Nearest multiple of 1/4 (exactly representable as float)."""
    return F(round(x * 4), 4)


def _num(x: F):
    return int(x) if x.denominator == 1 else float(x)


# ------------------------------------------------------------------------------------------
# generator
# ------------------------------------------------------------------------------------------
MODS = ["force", "force", "fix", "fix", "fix0", "con-ub", "con-lb", "con-range", "con-eq", "con-eq", "con-eq0"]


@st.composite
def cases(draw):
    pal = draw(st.sampled_from(["finite0", "finite0", "finite0", "finite"]))
    spec = draw(specs.model_spec(max_mets=4, max_rxns=6, min_rxns=3, families=("pathway",), palette=pal, gprs=False,
                                 objective="any", solvers=("glpk",), halves=True))
    spec = dict(spec)
    spec["rxns"] = [dict(r) for r in spec["rxns"]]
    mids = [m["id"] for m in spec["mets"]]
    # extra boundary reactions raise the dimension of the polytope (a bare chain is a segment)
    n_extra = draw(st.sampled_from([0, 1, 1, 2, 2, 2]))
    for _ in range(n_extra):
        if len(spec["rxns"]) >= 7:
            break
        mid = draw(st.sampled_from(mids))
        lb, ub = draw(st.sampled_from([(0, 10), (-10, 10), (0, 100), (-5, 0), (-100, 100), (0, 7.5)]))
        spec["rxns"].append({"id": f"R{len(spec['rxns'])}", "mets": {mid: draw(st.sampled_from([-1, -1, 1, -2]))}, "lb": lb, "ub": ub,
                             "gpr": None, "name": "", "subsystem": "", "notes": {}, "annotation": {}})
    spec["cons"] = []
    applied = []
    mods = [draw(st.sampled_from(MODS)) for _ in range(draw(st.sampled_from([0, 1, 1, 1, 2, 2])))]
    for mod in mods:
        ranges, aux = _ranges(spec)
        if ranges is None:
            break
        flp, solver = aux
        n = len(spec["rxns"])
        k = draw(st.sampled_from([1, 2, 3]))  # quarter of the range at which the new bound is placed
        if mod in ("force", "fix", "fix0"):
            j = draw(st.integers(0, n - 1))
            lo, hi = ranges[j]
            r = spec["rxns"][j]
            if mod == "fix0":
                if lo <= 0 <= hi and lo != hi:
                    r["lb"], r["ub"] = 0, 0
                    applied.append("fix0")
                continue
            side = draw(st.sampled_from(["pos", "neg"]))
            if side == "pos" and hi > 0:
                val = _grid(max(lo, F(0)) + (hi - max(lo, F(0))) * k / 4)
                if not (val > 0 and lo <= val <= hi):
                    continue
                if mod == "force" and val < hi:
                    r["lb"] = _num(val)
                    applied.append("force")
                elif mod == "fix":
                    r["lb"] = r["ub"] = _num(val)
                    applied.append("fix")
            elif side == "neg" and lo < 0:
                val = _grid(min(hi, F(0)) + (lo - min(hi, F(0))) * k / 4)
                if not (val < 0 and lo <= val <= hi):
                    continue
                if mod == "force" and val > lo:
                    r["ub"] = _num(val)
                    applied.append("force")
                elif mod == "fix":
                    r["lb"] = r["ub"] = _num(val)
                    applied.append("fix")
        else:
            rids = [r["id"] for r in spec["rxns"]]
            chosen = draw(st.lists(st.sampled_from(rids), min_size=1, max_size=min(3, n), unique=True))
            coefs = {rid: draw(st.sampled_from([1, 1, -1, 2])) for rid in chosen}
            lo, hi = _row_range(flp, solver, coefs)
            if lo == hi:
                continue
            a, b = _grid(lo + (hi - lo) * k / 4), _grid(lo + (hi - lo) * (k + 1) / 4)
            if not (lo <= a <= hi and lo <= b <= hi):
                continue
            name = f"ucon{len(spec['cons'])}"
            if mod == "con-ub":
                con = {"lb": None, "ub": _num(a)}
            elif mod == "con-lb":
                con = {"lb": _num(a), "ub": None}
            elif mod == "con-range":
                if a == b:
                    continue
                con = {"lb": _num(a), "ub": _num(b)}
            elif mod == "con-eq":
                if a == 0:
                    continue
                con = {"lb": _num(a), "ub": _num(a)}
            else:
                if not (lo <= 0 <= hi):
                    continue
                con = {"lb": 0, "ub": 0}
            spec["cons"].append({"name": name, "coefs": coefs, **con})
            applied.append(mod)
    # the statement is about polytopes one can walk in: lift most segments / points to dimension >= 2
    if draw(st.sampled_from([True, True, True, False])):
        while len(spec["rxns"]) < 7 and (polytope_dimension(spec) or 0) < 2:
            mid = draw(st.sampled_from(mids))
            spec["rxns"].append({"id": f"R{len(spec['rxns'])}", "mets": {mid: draw(st.sampled_from([-1, 1]))}, "lb": draw(st.sampled_from([-10, 0, -5])),
                                 "ub": draw(st.sampled_from([10, 100, 5])), "gpr": None, "name": "", "subsystem": "", "notes": {}, "annotation": {}})
    method = draw(st.sampled_from(["achr", "optgp"]))
    api = draw(st.sampled_from(["function", "class", "class", "batch"]))
    return {
        "spec": spec,
        "mods": applied,
        "path": draw(st.sampled_from(build.BUILD_PATHS_LP)),
        "method": method,
        "api": api,
        "fluxes": True if api == "function" else draw(st.sampled_from([True, False])),
        "n": draw(st.one_of(st.integers(1, 30), st.integers(5, 30), st.sampled_from([5, 8, 10, 20]))),
        "batch_num": draw(st.integers(2, 3)),
        "thinning": draw(st.sampled_from([1, 3, 10])),
        "nproj": None if api == "function" else draw(st.sampled_from([None, None, 1, 2, 7, 100])),
        "seed": draw(st.one_of(st.integers(1, 2**31 - 2), st.integers(1, 1000), st.integers(2**31, 2**40))),
        "processes": draw(st.sampled_from([1, 1, 1, 2, 3])) if method == "optgp" else 1,
        "rerun": draw(st.sampled_from(["same-model", "fresh-model"])),
        "integer": draw(st.sampled_from([False] * 29 + [True])),
        # another sampler object of the same class, on a model with twice the bounds, created before or after the one
        # under test and alive while it samples (since seeded change C16-5: state shared between sampler objects)
        "bystander": draw(st.sampled_from([None, None, None, "before", "after", "after"])),
    }


# ------------------------------------------------------------------------------------------
# independent feasibility check (numpy, from the spec)
# ------------------------------------------------------------------------------------------
def _v(bucket, msg):
    raise PropertyViolation(bucket, msg)


def reverse_id(rid: str) -> str:
    """Documented name of the reverse variable of a reaction."""
    return "_".join((rid, "reverse", hashlib.md5(rid.encode("utf-8")).hexdigest()[0:5]))


class SpecCheck:
    def __init__(self, spec):
        import numpy as np

        self.np = np
        self.rids = [r["id"] for r in spec["rxns"]]
        self.mids = [m["id"] for m in spec["mets"]]
        mi = {m: i for i, m in enumerate(self.mids)}
        n = len(self.rids)
        self.S = np.zeros((len(self.mids), n))
        for j, r in enumerate(spec["rxns"]):
            for m, c in r["mets"].items():
                self.S[mi[m], j] = c
        self.lb = np.array([float(r["lb"]) for r in spec["rxns"]])
        self.ub = np.array([float(r["ub"]) for r in spec["rxns"]])
        self.cons = spec.get("cons", [])
        ri = {r: j for j, r in enumerate(self.rids)}
        self.C = np.zeros((len(self.cons), n))
        for i, c in enumerate(self.cons):
            for rid, k in c["coefs"].items():
                self.C[i, ri[rid]] = k
        self.clo = np.array([-INF if c["lb"] is None else float(c["lb"]) for c in self.cons])
        self.chi = np.array([INF if c["ub"] is None else float(c["ub"]) for c in self.cons])
        # documented split of a net flux into non-negative forward and reverse variables
        self.var_names, vlb, vub = [], [], []
        for r in spec["rxns"]:
            self.var_names += [r["id"], reverse_id(r["id"])]
            vlb += [max(0.0, float(r["lb"])), max(0.0, -float(r["ub"]))]
            vub += [max(0.0, float(r["ub"])), max(0.0, -float(r["lb"]))]
        self.vlb, self.vub = np.array(vlb), np.array(vub)

    def residuals(self, V):
        """Per row: dict of worst residuals (positive = violated by that much) and where."""
        np = self.np
        out = []
        for v in np.atleast_2d(V):
            sv = self.S.dot(v) if self.S.size else np.zeros(0)
            items = []
            if sv.size:
                i = int(np.abs(sv).argmax())
                items.append(("steady-state", abs(float(sv[i])), f"metabolite {self.mids[i]}: (S v) = {float(sv[i])!r}, expected 0"))
            d = self.lb - v
            j = int(d.argmax())
            items.append(("lower-bound", float(d[j]), f"reaction {self.rids[j]}: flux {float(v[j])!r} below lower bound {float(self.lb[j])!r}"))
            d = v - self.ub
            j = int(d.argmax())
            items.append(("upper-bound", float(d[j]), f"reaction {self.rids[j]}: flux {float(v[j])!r} above upper bound {float(self.ub[j])!r}"))
            if len(self.cons):
                cv = self.C.dot(v)
                d = np.maximum(self.clo - cv, cv - self.chi)
                i = int(d.argmax())
                items.append(("user-constraint", float(d[i]), f"constraint {self.cons[i]['name']} {self.cons[i]['coefs']}: value {float(cv[i])!r} "
                                                              f"outside [{self.cons[i]['lb']}, {self.cons[i]['ub']}]"))
            out.append(items)
        return out

    def assert_feasible(self, V, where):
        """Raise on the first row that is infeasible beyond TOL; return per-row worst residual."""
        worst = []
        for k, items in enumerate(self.residuals(V)):
            for kind, r, text in items:
                if not (r <= TOL):  # also catches nan
                    _v(f"sample:{kind}", f"{where}, row {k}: {text} (residual {r!r} > {TOL})")
            worst.append(max(r for _, r, _ in items))
        return worst


# ------------------------------------------------------------------------------------------
# the check
# ------------------------------------------------------------------------------------------
def _make_sampler(model, case):
    from cobra.sampling import ACHRSampler, OptGPSampler

    kw = {"thinning": case["thinning"], "seed": case["seed"]}
    if case["nproj"] is not None:
        kw["nproj"] = case["nproj"]
    if case["method"] == "achr":
        return ACHRSampler(model, **kw)
    return OptGPSampler(model, processes=case["processes"], **kw)


def _bystander(case):
    """A sampler of the same class on the same network with every bound and constraint side doubled (a feasible region
    that contains the tested one properly), other seed. It only has to exist; whether it can be built is irrelevant."""
    import copy

    spec2 = copy.deepcopy(case["spec"])
    for r in spec2["rxns"]:
        r["lb"], r["ub"] = 2 * r["lb"], 2 * r["ub"]
    for c in spec2["cons"]:
        c["lb"], c["ub"] = (None if c["lb"] is None else 2 * c["lb"]), (None if c["ub"] is None else 2 * c["ub"])
    try:
        return _make_sampler(build.build_model(spec2, case["path"]), {**case, "seed": case["seed"] % 1000 + 7})
    except Exception:  # noqa: BLE001 - a distractor, nothing is asserted about it
        return None


def _run(model, case, bystander=None):
    """Returns (frames, sampler|None)."""
    from cobra.sampling import sample

    other = _bystander(case) if bystander == "before" else None
    if case["api"] == "function":
        kw = {"method": case["method"], "thinning": case["thinning"], "seed": case["seed"]}
        if case["method"] == "optgp":
            kw["processes"] = case["processes"]
        return [sample(model, case["n"], **kw)], None
    sampler = _make_sampler(model, case)
    if bystander == "after":
        other = _bystander(case)
    sampler._vfw_bystander = other  # keep it alive as long as the tested sampler
    if case["api"] == "class":
        return [sampler.sample(case["n"], fluxes=case["fluxes"])], sampler
    return list(sampler.batch(case["n"], case["batch_num"], fluxes=case["fluxes"])), sampler


def _validate(sampler, X, what):
    try:
        codes = sampler.validate(X)
    except Exception as e:  # noqa: BLE001
        _v("validate:crash", f"sampler.validate({what}, shape {tuple(X.shape)}) raised {type(e).__name__}: {str(e)[:200]}; expected one code per row")
    return [str(c) for c in codes]


def _perturbations(sc, base, names, fluxes, seed):
    """Copies of a feasible row moved PUSH outside a bound / a user constraint / off steady state.
    Returns [(row, letter, exact_code?, description, class tag)]."""
    import numpy as np

    out = []
    n = len(sc.rids)
    j0 = seed % n
    rot = list(range(j0, n)) + list(range(j0))
    if fluxes:
        v = base
        pos = [names.index(rid) for rid in sc.rids]  # column of each reaction of the spec (the model's list order may differ)
        for letter, val in (("l", sc.lb[j0] - PUSH), ("u", sc.ub[j0] + PUSH)):
            w = v.copy()
            w[pos[j0]] = val
            out.append((w, letter, False, f"flux of {sc.rids[j0]} set to {float(val)!r} (bounds [{sc.lb[j0]}, {sc.ub[j0]}])", f"flux-{letter}"))
        for jj in rot:  # off steady state but strictly inside the bounds
            if not np.any(sc.S[:, jj]):
                continue
            if v[pos[jj]] + PUSH <= sc.ub[jj] - PUSH:
                delta = PUSH
            elif v[pos[jj]] - PUSH >= sc.lb[jj] + PUSH:
                delta = -PUSH
            else:
                continue
            w = v.copy()
            w[pos[jj]] += delta
            out.append((w, "e", True, f"flux of {sc.rids[jj]} moved by {delta} inside its bounds (S v off by {PUSH * float(np.abs(sc.S[:, jj]).max())!r})", "flux-e"))
            break
        return out
    col = {nm: names.index(nm) for nm in sc.var_names}
    jv = seed % len(sc.var_names)
    nm = sc.var_names[jv]
    for letter, val in (("l", sc.vlb[jv] - PUSH), ("u", sc.vub[jv] + PUSH)):
        w = base.copy()
        w[col[nm]] = val
        out.append((w, letter, False, f"variable {nm} set to {float(val)!r} (bounds [{sc.vlb[jv]}, {sc.vub[jv]}])", f"var-{letter}"))

    def room(idx, delta):  # may variable idx move by delta and stay PUSH inside its bounds?
        x = base[col[sc.var_names[idx]]] + delta
        return sc.vlb[idx] + PUSH <= x <= sc.vub[idx] - PUSH

    def move_flux(j, delta):
        """Row with net flux j changed by delta through a variable that stays strictly inside its bounds, or None."""
        for idx, d in ((2 * j, delta), (2 * j + 1, -delta)):
            if room(idx, d):
                w = base.copy()
                w[col[sc.var_names[idx]]] += d
                return w, sc.var_names[idx], d
        return None

    for jj in rot:
        if not np.any(sc.S[:, jj]):
            continue
        got = move_flux(jj, PUSH) or move_flux(jj, -PUSH)
        if got:
            out.append((got[0], "e", False, f"variable {got[1]} moved by {got[2]} inside its bounds (S v off by {PUSH * float(np.abs(sc.S[:, jj]).max())!r})", "var-e"))
            break
    flux = np.array([base[col[sc.var_names[2 * j]]] - base[col[sc.var_names[2 * j + 1]]] for j in range(n)])
    for i, c in enumerate(sc.cons):
        if c["lb"] == c["ub"]:
            continue
        cv = float(sc.C[i].dot(flux))
        done = False
        for letter, need in (("u", None if c["ub"] is None else float(c["ub"]) - cv + PUSH), ("l", None if c["lb"] is None else float(c["lb"]) - cv - PUSH)):
            if need is None or done:
                continue
            for j in range(n):
                if sc.C[i, j] == 0:
                    continue
                got = move_flux(j, need / sc.C[i, j])
                if got:
                    out.append((got[0], letter, False, f"variable {got[1]} moved by {got[2]!r} inside its bounds so that user constraint {c['name']} "
                                                       f"{c['coefs']} = {cv + need!r} leaves [{c['lb']}, {c['ub']}]", f"var-usercon-{letter}"))
                    done = True
                    break
        if done:
            break
    return out


def _third_warmup_point_infeasible(model, sc):
    """Diagnosis for the known finding (never an oracle): warmup = two points plus 0.25*(w1+w2), the latter infeasible."""
    import numpy as np
    from cobra.sampling.hr_sampler import HRSampler

    class _Probe(HRSampler):
        def sample(self, n, fluxes=True):
            raise NotImplementedError

    probe = _Probe(model, thinning=1, seed=1)
    try:
        probe.generate_fva_warmup()
    except ValueError:
        return False
    W = np.asarray(probe.warmup)
    if W.shape[0] != 3 or not np.allclose(W[2], 0.25 * (W[0] + W[1]), rtol=0, atol=1e-9):
        return False
    names = [v.name for v in probe.model.variables]
    r2 = W[2][[names.index(nm) for nm in sc.var_names]]
    res = max(float((sc.vlb - r2).max()), float((r2 - sc.vub).max()))
    res = max([res] + [r for _, r, _ in sc.residuals(r2[0::2] - r2[1::2])[0]])
    return res > TOL


def check_case(case, ctx):
    import numpy as np

    build.reset_globals()
    spec = case["spec"]
    rids = [r["id"] for r in spec["rxns"]]
    classes = [f"method-{case['method']}", f"api-{case['api']}", f"fluxes-{case['fluxes']}", f"proc-{case['processes']}",
               f"thinning-{case['thinning']}", f"nproj-{case['nproj']}", f"rerun-{case['rerun']}", f"bystander-{case.get('bystander')}"]
    classes += [f"mod-{m}" for m in case["mods"]] or ["mod-none"]
    dim = polytope_dimension(spec)
    if dim is None:
        return {"nontrivial": False, "classes": ["infeasible-spec-skip"]}
    classes.append(f"dim-{min(dim, 4)}{'+' if dim >= 4 else ''}")
    inhomogeneous = any(r["lb"] == r["ub"] != 0 for r in spec["rxns"]) or any(c["lb"] == c["ub"] and c["lb"] not in (0, None) for c in spec["cons"])
    forced = any(not (r["lb"] <= 0 <= r["ub"]) for r in spec["rxns"])
    classes.append("inhomogeneous" if inhomogeneous else ("forced-flux" if forced else "contains-origin"))
    if spec["cons"]:
        classes.append("user-constraints")

    model = build.build_model(spec, case["path"])
    if case["integer"]:
        model.add_cons_vars([model.problem.Variable("int_var", lb=0, ub=3, type="integer")])
        classes.append("integer-variable")
    before = observe.snapshot(model)
    sc = SpecCheck(spec)
    # columns follow the model's lists / the solver's variables (a build path may have reordered the reaction list or put
    # an auxiliary variable fixed at zero, "free_var", among the solver variables)
    want_cols = [r.id for r in model.reactions] if case["fluxes"] else [v.name for v in model.variables]
    if case["fluxes"] and sorted(want_cols) != sorted(rids):
        raise RuntimeError(f"harness: model.reactions {want_cols} differ from the spec {rids}")
    if not case["fluxes"] and not case["integer"]:
        if sorted(c for c in want_cols if c != "free_var") != sorted(sc.var_names):
            raise RuntimeError(f"harness: variable names {want_cols} differ from the documented split {sc.var_names}")

    origin_in = all(r["lb"] <= 0 <= r["ub"] for r in spec["rxns"]) and all(
        (c["lb"] is None or c["lb"] <= 0) and (c["ub"] is None or c["ub"] >= 0) for c in spec["cons"])
    refused = None
    try:
        frames, sampler = _run(model, case, case.get("bystander"))
    except (ValueError, TypeError) as e:
        refused = e
    except Exception as e:  # noqa: BLE001
        d = observe.diff(before, observe.snapshot(model), limit=4)
        if d:
            _v("model-changed", f"sampling raised {type(e).__name__} and left the model changed: {d}")
        escape = isinstance(e, RuntimeError) and "escape" in str(e)
        if escape and not origin_in and SIG_TWO_POINTS in ctx.known and _third_warmup_point_infeasible(model, sc):
            # known finding: the warmup collapsed to two points and the added "direction" 0.25*(w1+w2) lies outside a
            # region that does not contain the origin; attributed by looking at the warmup matrix itself
            ctx.excluded_by(SIG_TWO_POINTS)
            return {"nontrivial": False, "classes": classes + ["known-two-warmup-points-off-origin"]}
        kind = "cannot-escape" if escape else "crash"
        _v(f"no-samples:{kind}", f"{case['method']} ({case['api']}, n={case['n']}, thinning={case['thinning']}, nproj={case['nproj']}, seed={case['seed']}) "
                                f"raised {type(e).__name__}: {str(e)[:160]} on a feasible model with finite bounds (polytope dimension {dim}, "
                                f"origin {'inside' if origin_in else 'outside'} the region, expected {case['n']} samples)")
    d = observe.diff(before, observe.snapshot(model), limit=4)
    if d:
        _v("model-changed", f"sampling ({'raised ' + type(refused).__name__ if refused else 'returned'}) left the model changed: {d}")

    if case["integer"]:
        if not isinstance(refused, TypeError):
            _v("integer-not-refused", f"model with an integer variable: expected TypeError, got {repr(refused) if refused else 'samples'}")
        return {"nontrivial": False, "classes": classes + ["refused-integer"]}
    if refused is not None:
        # documented: ValueError "if flux cone contains a single point or the problem is inhomogeneous"
        if isinstance(refused, ValueError) and (dim <= 1 or not origin_in):
            return {"nontrivial": False, "classes": classes + [f"refused-dim-{dim}" if dim <= 1 else "refused-off-origin-dim>=2"]}
        _v("refused-samplable", f"{case['method']} raised {type(refused).__name__}: {str(refused)[:160]} on a feasible model whose flux polytope has "
                                f"dimension {dim} and contains the origin (expected {case['n']} samples)")

    # ---- shape ---------------------------------------------------------------------------------------
    p = case["processes"] if case["method"] == "optgp" else 1
    want_rows = int(math.ceil(case["n"] / p) * p)
    for b, fr in enumerate(frames):
        if list(fr.columns) != want_cols:
            _v("shape:columns", f"frame {b}: columns {list(fr.columns)} but expected {want_cols}")
        if fr.shape[0] != want_rows:
            _v("shape:rows", f"frame {b}: {fr.shape[0]} rows but n={case['n']} with {p} process(es) must give {want_rows}")
    if case["api"] == "batch" and len(frames) != case["batch_num"]:
        _v("shape:batches", f"{len(frames)} batches, expected {case['batch_num']}")

    # ---- feasibility ---------------------------------------------------------------------------------
    all_flux = []
    worst = []
    undetermined = 0
    for b, fr in enumerate(frames):
        X = fr.to_numpy(dtype=float)
        if not np.isfinite(X).all():
            _v("sample:not-finite", f"frame {b} contains non-finite values: {X[~np.isfinite(X).all(axis=1)][:1].tolist()}")
        where = f"{case['method']} {case['api']} frame {b}"
        if case["fluxes"]:
            V = fr[rids].to_numpy(dtype=float)  # by label, in the order of the spec
        else:
            names = list(fr.columns)
            order = [names.index(nm) for nm in sc.var_names]
            for k, row in enumerate(X):
                r2 = row[order]
                lo, hi = sc.vlb - r2, r2 - sc.vub
                j = int(np.maximum(lo, hi).argmax())
                if not (max(lo[j], hi[j]) <= TOL):
                    _v("varsample:bound", f"{where}, row {k}: variable {sc.var_names[j]} = {float(r2[j])!r} outside [{sc.vlb[j]}, {sc.vub[j]}]")
            Xo = X[:, order]
            V = Xo[:, 0::2] - Xo[:, 1::2]
        w = sc.assert_feasible(V, where)
        worst.append(w)
        all_flux.append(V)

    # ---- validate() against the independent residuals ----------------------------------------------------
    has_ineq = any(c["lb"] != c["ub"] for c in spec["cons"])
    if sampler is not None and not case["fluxes"] and has_ineq and SIG_VALIDATE in ctx.known:
        ctx.excluded_by(SIG_VALIDATE)
        classes.append("known-validate-skipped")
    elif sampler is not None:
        space = "flux space" if case["fluxes"] else "variable space"
        for b, fr in enumerate(frames):
            X = fr.to_numpy(dtype=float)
            codes = _validate(sampler, X, f"its own samples, {space}")
            if len(codes) != X.shape[0]:
                _v("validate:shape", f"validate returned {len(codes)} codes for {X.shape[0]} rows")
            for k, code in enumerate(codes):
                if worst[b][k] <= CLEAR:
                    if code != "v":
                        _v("validate:false-alarm", f"validate() = {code!r} for row {k} of frame {b} ({space}) whose independent residual is "
                                                   f"{worst[b][k]!r}, expected 'v' (row {X[k].tolist()})")
                else:
                    undetermined += 1
        # one clearly feasible row and copies of it pushed out of the region, validated in ONE call
        ok = [k for k in range(all_flux[0].shape[0]) if worst[0][k] <= CLEAR]
        if ok:
            k = ok[case["seed"] % len(ok)]
            base = frames[0].to_numpy(dtype=float)[k]
            probes = _perturbations(sc, base, list(frames[0].columns), case["fluxes"], case["seed"])
            W = np.vstack([base] + [pr[0] for pr in probes])
            codes = _validate(sampler, W, f"a feasible sample and {len(probes)} perturbed copies, {space}")
            if len(codes) != W.shape[0]:
                _v("validate:shape", f"validate returned {len(codes)} codes for {W.shape[0]} rows")
            if codes[0] != "v":
                _v("validate:false-alarm", f"validate() = {codes[0]!r} for a feasible row (residual {worst[0][k]!r}) when infeasible rows are "
                                           f"validated in the same call ({space}, codes {codes}), expected 'v'")
            for (row, letter, exact, text, tag), code in zip(probes, codes[1:]):
                if (code != letter) if exact else (letter not in code):
                    _v(f"validate:missed-{letter}", f"{text} in a feasible sample ({space}): validate() = {code!r}, expected "
                                                    f"{'exactly ' if exact else 'a code containing '}{letter!r}")
                classes.append(f"validate-probe-{tag}")
            classes.append("validate-probed")

    # ---- same seed => same samples ---------------------------------------------------------------------
    model2 = model if case["rerun"] == "same-model" else build.build_model(spec, case["path"])
    # whatever else uses numpy's global generator between the runs must not matter: the samples depend on the sampler's
    # seed only (since seeded change C16-9)
    np.random.seed((case["seed"] + 977) % (2**32 - 1))
    np.random.random(3)
    frames2, _ = _run(model2, case)
    for b, (f1, f2) in enumerate(zip(frames, frames2)):
        A, B = f1.to_numpy(dtype=float), f2.to_numpy(dtype=float)
        if A.shape != B.shape or list(f1.columns) != list(f2.columns) or not np.array_equal(A, B):
            diffmax = float(np.abs(A - B).max()) if A.shape == B.shape else float("nan")
            kk = int(np.abs(A - B).max(axis=1).argmax()) if A.shape == B.shape else 0
            _v("seed:not-reproducible", f"two runs with seed={case['seed']} ({case['method']}, processes={p}, {case['rerun']}) differ: frame {b} row {kk} "
                                        f"{A[kk].tolist()} vs {B[kk].tolist() if A.shape == B.shape else B.shape} (max difference {diffmax!r}, expected 0)")
    if case["rerun"] == "same-model":
        d = observe.diff(before, observe.snapshot(model), limit=4)
        if d:
            _v("model-changed", f"second sampling run left the model changed: {d}")

    allv = np.vstack(all_flux)
    distinct = len({tuple(np.round(r, 9)) for r in allv})
    if dim >= 1 and allv.shape[0] >= 5 and distinct == 1:
        classes.append("all-rows-equal")
    classes.append("samples>=5" if allv.shape[0] >= 5 else "samples<5")
    nontrivial = dim >= 2 and allv.shape[0] >= 5 and distinct == allv.shape[0]
    return {"nontrivial": nontrivial, "classes": classes, "undetermined": undetermined}


def hyp_phase(ctx):
    ctx.run_hypothesis(cases(), check_case, "sampling", ctx.params["max_examples"])


def phases(tier):
    if tier == "quick":
        return [Phase("hyp", hyp_phase, shards=8, params={"max_examples": 220, "budget_s": 40})]
    return [Phase("hyp", hyp_phase, shards=16, params={"max_examples": 2000, "budget_s": 500})]


CHECKS = {"sampling": check_case}
