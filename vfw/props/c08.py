"""C08 - a gene rule is a Boolean function and its text form is faithful."""
from __future__ import annotations

import copy
import itertools
import pickle
import string

from hypothesis import strategies as st

from vfw import build, gprtree
from vfw.engine import Phase, PropertyViolation

PROPERTY_ID = "C08"
RULE = (
    "Generator: and/or trees (depth <=4, fan-out <=4) over 1-6 gene identifiers drawn from the supported classes "
    "(letters, digits, leading digit, Python keyword, with . - : / ' \" = inside) rendered to text with a generated "
    "spelling (and/or, AND/OR, &/|), redundant parentheses and blanks (sub-expressions always parenthesised, so no "
    "precedence convention is relied on); pairs of rules (commuted / re-associated / duplicated-operand variants and "
    "unrelated rules) for ==; models with 2-5 reactions for remove_genes(subset, remove_reactions in {True, False}). "
    "Thorough tier: exhaustive enumeration of all trees with <=3 leaves over 3 genes x 3 spellings x parenthesis "
    "choices per identifier class. Oracle: truth table of the tree (all 2^n absent sets) vs GPR.from_string(text)."
    "eval; .genes == leaf set; to_string->from_string, copy, copy.copy, deepcopy, pickle of Reaction and Model, "
    "as_symbolic->from_symbolic keep table and gene set and compare == to the original; a == b implies equal tables; "
    "remove_genes: satisfiable rules equal the old table with the removed genes fixed absent and the removed genes "
    "are gone from rule, reaction and model. Non-trivial: both operators and depth >=2, or a non-plain identifier."
)
ASSUMPTIONS = [
    "gprtree.evaluate is the reference Boolean semantics; identifiers exclude and/or/AND/OR, blanks, parentheses and "
    "the parser's own escape tokens (__cobra_escape__, __COBRA_*__).",
    "Mixed spellings without parentheses (a | b and c) are not generated: no documentation defines their meaning.",
]

_PLAIN = string.ascii_letters + string.digits + "_"
_PUNCT = ".-:/'\"="
KEYWORDS = ["if", "for", "class", "lambda", "None", "True", "False", "import", "in", "is", "not", "def", "pass", "while", "else", "try", "with", "yield"]


@st.composite
def gene_id(draw):
    cls = draw(st.sampled_from(["plain", "plain", "digit", "keyword", "punct", "punct", "punct", "mixed", "oplike", "oplike"]))
    if cls == "oplike":
        # identifiers that contain the operator words (real gene names do: MTOR, RPTOR, ANDR1, ORF1, NOR1, BRAND2)
        return draw(st.sampled_from(["ANDR1", "MTOR", "RPTOR", "ORF1", "NOR1", "BRAND2", "andx", "xor", "b.OR", "AND1", "OR2", "Band",
                                     "TOR.1", "and_1", "or-2", "xAND", "ORx", "aANDb", "a.AND", "OR.b", "nand", "orc"]))
    base = draw(st.text(alphabet=_PLAIN, min_size=1, max_size=5))
    if cls == "plain":
        s = "g" + base
    elif cls == "digit":
        s = draw(st.sampled_from("0123456789")) + base
    elif cls == "keyword":
        s = draw(st.sampled_from(KEYWORDS))
    elif cls == "punct":
        ch = draw(st.text(alphabet=_PUNCT, min_size=1, max_size=2))
        pos = draw(st.integers(0, len(base)))
        s = base[:pos] + ch + base[pos:]
    else:
        s = draw(st.text(alphabet=_PLAIN + _PUNCT, min_size=1, max_size=6))
    return s


def _ok_id(s):
    return (s not in ("and", "or", "AND", "OR") and "__cobra_escape__" not in s and "__COBRA_" not in s and s.strip() == s and s != ""
            and not all(c in _PUNCT for c in s))


def id_class(s):
    if all(c in _PLAIN for c in s) and not s[0].isdigit() and s not in KEYWORDS:
        return "plain"
    if s in KEYWORDS:
        return "keyword"
    if all(c in _PLAIN for c in s):
        return "digit"
    return "punct"


@st.composite
def id_lists(draw, min_size=1, max_size=6):
    """Gene identifiers for one rule; in a quarter of the cases a family in which every identifier contains the previous
    one (g1, g10, g101, ...: real models have b1 / b12, gA / gAB), where substring tests and set membership differ."""
    if draw(st.integers(0, 3)) == 0:
        base = draw(st.sampled_from(["g1", "b", "4g", "a.1", "ORF", "x"]))
        fam, cur = [base], base
        for ch in draw(st.lists(st.sampled_from(["0", "1", "b", "_", ".2"]), min_size=max(1, min_size - 1), max_size=max_size - 1)):
            cur = cur + ch if draw(st.booleans()) else ch.strip(".") + cur if ch.strip(".").isalnum() and not ch[0].isdigit() else cur + ch
            fam.append(cur)
        fam = [x for x in dict.fromkeys(fam) if _ok_id(x)]
        if len(fam) >= max(2, min_size):
            return draw(st.permutations(fam))
    return draw(st.lists(gene_id().filter(_ok_id), min_size=min_size, max_size=max_size, unique=True))


@st.composite
def rule_cases(draw):
    ids = draw(id_lists())
    tree = draw(st.one_of(*[gprtree.trees(ids, max_fan=4)] * 7, gprtree.wide_trees(ids))) if len(ids) >= 2 else draw(gprtree.trees(ids, max_fan=4))
    return {
        "tree": tree,
        "spelling": draw(st.sampled_from(["word", "word", "upper", "sym"])),
        "choices": draw(st.lists(st.integers(0, 3), max_size=12)),
        "variant": draw(st.sampled_from(["commute", "reassoc", "dup", "other", "other", "drop", "drop", "swapop", "swapop"])),
        "other": draw(gprtree.trees(ids, max_fan=3)),
    }


@st.composite
def remove_cases(draw):
    ids = draw(id_lists(min_size=2))
    n = draw(st.integers(2, 5))
    rules = [draw(gprtree.opt_trees(ids, max_fan=3)) for _ in range(n)]
    used = sorted(set().union(*[gprtree.leaves(t) for t in rules])) or ids
    k = draw(st.integers(1, len(used)))
    ids = used
    return {
        "rules": rules,
        "spellings": [draw(st.sampled_from(["word", "word", "upper", "sym"])) for _ in range(n)],
        "remove": draw(st.lists(st.sampled_from(ids), min_size=1, max_size=k, unique=True)),
        "remove_reactions": draw(st.booleans()),
        "by": draw(st.sampled_from(["id", "obj"])),
        # query every rule object (symbolic form, ==, eval) before it is rewritten in place
        "warm": draw(st.booleans()),
        # afterwards rename one of the remaining genes (to a new identifier, or onto another remaining gene)
        "rename": draw(st.one_of(st.none(), st.tuples(st.integers(0, 5), st.integers(0, 6)))),
        # how each rule reaches its reaction (cycled over the reactions): as text, or as a rule object converted from the
        # symbolic form / copied (since seeded change C08-8)
        "routes": draw(st.one_of(st.just(["text"]), st.just(["text"]), st.lists(st.sampled_from(["text", "symbolic", "copy", "symbolic-copy"]), min_size=1, max_size=3))),
    }


def _bad(bucket, msg):
    raise PropertyViolation(bucket, msg)


def _absent(ko, form):
    """The absent genes in one of the argument forms GPR.eval documents ("DictList, set, str, Iterable ... name, list")."""
    from cobra import DictList, Gene

    if form == "str" and len(ko) == 1:
        return ko[0]
    if form == "dictlist":
        return DictList(Gene(g) for g in ko)
    return {"set": set, "frozenset": frozenset, "list": list, "tuple": tuple}.get(form, set)(ko)


FORMS = ["set", "frozenset", "list", "tuple", "dictlist", "str"]


def table_of(gpr, genes, form=None):
    # the form rotates with the subset unless one is given, so that every table uses all of them
    return [bool(gpr.eval(_absent(ko, form or FORMS[k % len(FORMS)]))) for k, ko in enumerate(gprtree.subsets(genes))]


def same_function(gpr, tree, what, text):
    genes = sorted(gprtree.leaves(tree))
    got_genes = sorted(gpr.genes)
    if got_genes != genes:
        _bad(f"{what}:genes", f"{what} of {text!r} reports genes {got_genes}, the expression contains {genes}")
    want = gprtree.table(tree, genes)
    got = table_of(gpr, genes)
    if got != want:
        i = next(k for k, (a, b) in enumerate(zip(got, want)) if a != b)
        ko = list(gprtree.subsets(genes))[i]
        _bad(f"{what}:truth-table", f"{what} of {text!r}: with {list(ko)} absent evaluates to {got[i]}, the expression is {want[i]}")


def _variant(tree, kind, other):
    if isinstance(tree, str):
        return ["or", tree, tree] if kind == "dup" else (other if kind == "other" else tree)
    if kind == "commute":
        return [tree[0], *[_variant(t, kind, other) for t in reversed(tree[1:])]]
    if kind == "swapop":  # same genes, other function (unless degenerate)
        return ["or" if tree[0] == "and" else "and", *tree[1:]]
    if kind == "reassoc" and len(tree) >= 4:
        return [tree[0], [tree[0], tree[1], tree[2]], *tree[3:]]
    if kind == "dup":
        return [tree[0], *tree[1:], tree[1]]
    if kind == "drop" and len(tree) >= 3:
        return tree[1] if len(tree) == 3 else [tree[0], *tree[1:-1]]
    if kind == "other":
        return other
    return tree


def check_rule(case, ctx):
    from cobra import Model, Reaction
    from cobra.core.gene import GPR

    tree = case["tree"]
    text = gprtree.render(tree, case["spelling"], case["choices"])
    ids = sorted(gprtree.leaves(tree))
    classes = {f"spelling-{case['spelling']}"} | {f"id-{id_class(i)}" for i in ids}
    try:
        gpr = GPR.from_string(text)
    except Exception as e:  # noqa: BLE001
        _bad("parse:raised", f"from_string({text!r}) raised {type(e).__name__}: {e}")
    same_function(gpr, tree, "parse", text)

    def rt(what, fn):
        try:
            g2 = fn()
        except Exception as e:  # noqa: BLE001
            _bad(f"{what}:raised", f"{what} of {text!r} raised {type(e).__name__}: {e}")
        same_function(g2, tree, what, text)
        try:
            eq = g2 == gpr
        except Exception as e:  # noqa: BLE001
            _bad(f"{what}:eq-raised", f"comparing {what} of {text!r} with the original raised {type(e).__name__}: {e}")
        if eq is not True:
            _bad(f"{what}:not-equal", f"{what} of {text!r} does not compare equal to the original ({g2.to_string()!r})")
        return g2

    rt("to_string-from_string", lambda: GPR.from_string(gpr.to_string()))
    rt("str-from_string", lambda: GPR.from_string(str(gpr)))
    rt("copy", gpr.copy)
    rt("copy.copy", lambda: copy.copy(gpr))
    rt("deepcopy", lambda: copy.deepcopy(gpr))
    rt("symbolic", lambda: GPR.from_symbolic(gpr.as_symbolic()))
    # through a reaction and a model
    r = Reaction("R1")
    r.gene_reaction_rule = text
    same_function(r.gpr, tree, "reaction-rule", text)
    if sorted(g.id for g in r.genes) != ids:
        _bad("reaction-rule:genes", f"reaction.genes {sorted(g.id for g in r.genes)} vs {ids} for {text!r}")
    rt("reaction-pickle", lambda: pickle.loads(pickle.dumps(r)).gpr)
    rt("reaction-copy", lambda: r.copy().gpr)
    m = Model("m")
    m.add_reactions([r])
    if sorted(g.id for g in m.genes) != ids:
        _bad("model:genes", f"model.genes {sorted(g.id for g in m.genes)} vs {ids} for {text!r}")
    rt("model-copy", lambda: m.copy().reactions.R1.gpr)
    rt("model-pickle", lambda: pickle.loads(pickle.dumps(m)).reactions.R1.gpr)

    # soundness of ==
    vt = _variant(tree, case["variant"], case["other"])
    vtext = gprtree.render(vt, "word")
    g2 = GPR.from_string(vtext)
    try:
        eq = bool(gpr == g2)
    except Exception as e:  # noqa: BLE001
        _bad("eq:raised", f"{text!r} == {vtext!r} raised {type(e).__name__}: {e}")
    union = sorted(gprtree.leaves(tree) | gprtree.leaves(vt))
    equivalent = gprtree.table(tree, union) == gprtree.table(vt, union)
    if eq and not equivalent:
        _bad("eq:unsound", f"{text!r} == {vtext!r} is True but the rules differ as Boolean functions")
    classes.add(f"eq-{'equiv' if equivalent else 'differ'}-{'T' if eq else 'F'}")
    nontrivial = (gprtree.has_both_ops(tree) and gprtree.depth(tree) >= 2) or any(id_class(i) != "plain" for i in ids)
    return {"nontrivial": nontrivial, "classes": sorted(classes)}


def live_rule_checks(gpr, tree, what, old_tree=None):
    """The relations of the statement for a rule object that lives in a reaction and may have been rewritten in place:
    its own function, its text and symbolic round trips, copies, and == against the reparsed text / the former rule."""
    from cobra.core.gene import GPR

    text = gpr.to_string()
    same_function(gpr, tree, what, text)
    for label, fn in (("to_string-from_string", lambda: GPR.from_string(gpr.to_string())), ("copy", gpr.copy),
                      ("deepcopy", lambda: copy.deepcopy(gpr)), ("symbolic", lambda: GPR.from_symbolic(gpr.as_symbolic()))):
        try:
            g2 = fn()
        except Exception as e:  # noqa: BLE001
            _bad(f"{what}:{label}:raised", f"{label} of the rule {text!r} raised {type(e).__name__}: {e}")
        same_function(g2, tree, f"{what}:{label}", text)
        for a, b, side in ((g2, gpr, "left"), (gpr, g2, "right")):
            try:
                eq = a == b
            except Exception as e:  # noqa: BLE001
                _bad(f"{what}:{label}:eq-raised", f"comparing {label} of {text!r} with the rule raised {type(e).__name__}: {e}")
            if eq is not True:
                _bad(f"{what}:{label}:not-equal", f"{label} of the rule {text!r} does not compare equal to it ({side} operand; {g2.to_string()!r})")
    if old_tree is not None:
        union = sorted(gprtree.leaves(tree) | gprtree.leaves(old_tree))
        if gprtree.table(tree, union) != gprtree.table(old_tree, union):
            old = GPR.from_string(gprtree.render(old_tree))
            if (gpr == old) is True or (old == gpr) is True:
                _bad(f"{what}:eq-unsound", f"the rule {text!r} compares equal to its former version {gprtree.render(old_tree)!r} although they differ as Boolean functions")


def check_remove(case, ctx):
    from cobra import Model, Reaction
    from cobra.manipulation import remove_genes

    m = Model("m")
    rx = []
    for i, (tree, sp) in enumerate(zip(case["rules"], case["spellings"])):
        r = Reaction(f"R{i}")
        if tree is not None:
            text = gprtree.render(tree, sp)
            # the rule reaches the reaction as text or as a rule object that went through another representation first
            route = (case.get("routes") or ["text"])[i % len(case.get("routes") or ["text"])]
            if route == "text":
                r.gene_reaction_rule = text
            else:
                from cobra.core.gene import GPR

                g0 = GPR.from_string(text)
                r.gpr = {"symbolic": lambda: GPR.from_symbolic(g0.as_symbolic()), "copy": g0.copy,
                         "symbolic-copy": lambda: GPR.from_symbolic(g0.as_symbolic()).copy()}[route]()
        rx.append(r)
    m.add_reactions(rx)
    absent = set(case["remove"])
    present = [g for g in case["remove"] if g in m.genes]
    if not present:
        return {"nontrivial": False, "classes": ["remove-none-present"]}
    arg = present if case["by"] == "id" else [m.genes.get_by_id(g) for g in present]
    if case.get("warm"):
        for r, tree in zip(rx, case["rules"]):
            if tree is not None:
                live_rule_checks(r.gpr, tree, "before-rewrite")
                r.functional
    try:
        remove_genes(m, arg, remove_reactions=case["remove_reactions"])
    except Exception as e:  # noqa: BLE001
        _bad("remove_genes:raised", f"remove_genes({present}, remove_reactions={case['remove_reactions']}) raised {type(e).__name__}: {e}")
    classes = {f"remove_reactions-{case['remove_reactions']}"}
    interesting = False
    for i, tree in enumerate(case["rules"]):
        rid = f"R{i}"
        if tree is None:
            if rid not in m.reactions:
                _bad("remove_genes:removed-ruleless", f"{rid} has no rule but was removed")
            continue
        new = gprtree.restrict(tree, absent)
        text = gprtree.render(tree)
        if new is False:
            if case["remove_reactions"]:
                if rid in m.reactions:
                    _bad("remove_genes:kept-dead-reaction", f"{rid} ({text!r}) cannot be catalysed without {sorted(absent)} but was kept")
            continue  # not constrained by the statement when kept
        if rid not in m.reactions:
            _bad("remove_genes:removed-live-reaction", f"{rid} ({text!r}) can still be catalysed without {sorted(absent)} but was removed")
        r = m.reactions.get_by_id(rid)
        remaining = sorted(gprtree.leaves(tree) - absent)
        want = [gprtree.evaluate(tree, set(ko) | absent) for ko in gprtree.subsets(remaining)]
        got = [bool(r.gpr.eval(set(ko))) for ko in gprtree.subsets(remaining)]
        if got != want:
            _bad("remove_genes:rule-changed", f"{rid}: old rule {text!r} with {sorted(absent)} absent is not equivalent to the new rule {r.gene_reaction_rule!r}")
        for g in absent:
            if g in r.gpr.genes or g in {x.id for x in r.genes} or g in r.gene_reaction_rule.replace("(", " ").replace(")", " ").split():
                _bad("remove_genes:gene-left-in-rule", f"{rid}: removed gene {g!r} still in rule {r.gene_reaction_rule!r} / genes {sorted(x.id for x in r.genes)}")
        if gprtree.leaves(tree) & absent:
            interesting = True
            live_rule_checks(r.gpr, new, "after-remove_genes", old_tree=tree)
    for g in present:
        if g in m.genes:
            _bad("remove_genes:gene-left-in-model", f"removed gene {g!r} is still in model.genes")
    if case.get("warm"):
        classes.add("~rules-queried-before-rewrite")
    if case.get("rename") is not None and len(m.genes):
        from cobra.manipulation import rename_genes

        gids = sorted(g.id for g in m.genes)
        old_id = gids[case["rename"][0] % len(gids)]
        new_id = (gids + ["renamed.1"])[case["rename"][1] % (len(gids) + 1)]
        if new_id != old_id:
            current = {}
            for i, tree in enumerate(case["rules"]):
                if tree is not None and f"R{i}" in m.reactions:
                    t = gprtree.restrict(tree, absent)
                    if t is not False:
                        current[f"R{i}"] = t
            rename_genes(m, {old_id: new_id})

            def ren(t):
                if isinstance(t, str):
                    return new_id if t == old_id else t
                return [t[0], *[ren(x) for x in t[1:]]]

            for rid, t in current.items():
                if old_id in gprtree.leaves(t):
                    live_rule_checks(m.reactions.get_by_id(rid).gpr, ren(t), "after-rename_genes", old_tree=t)
                    classes.add("~rule-renamed-in-place")
    from vfw import observe

    observe.audit_crossrefs(m, "remove_genes")
    return {"nontrivial": interesting, "classes": sorted(classes)}


# ------------------------------------------------------------------------------------------
# exhaustive small scope
# ------------------------------------------------------------------------------------------
ID_SETS = {
    "oplike": ["ANDR1", "MTOR", "b.OR"],
    "plain": ["a", "b1", "c_x"],
    "digit": ["1a", "22", "3_b"],
    "keyword": ["if", "None", "lambda"],
    "punct": ["a.1", "b-c:d", "x/y'z\"=w"],
}


def _all_trees(ids, max_leaves):
    """All and/or trees with <= max_leaves leaves (ordered, n-ary with fan 2-3)."""
    by_n = {1: list(ids)}
    for n in range(2, max_leaves + 1):
        out = []
        for k in (2, 3):
            if k > n:
                continue
            for parts in _compositions(n, k):
                for kids in itertools.product(*[by_n[p] for p in parts]):
                    for op in ("and", "or"):
                        out.append([op, *kids])
        by_n[n] = out
    return [t for n in by_n for t in by_n[n]]


def _compositions(n, k):
    if k == 1:
        yield (n,)
        return
    for first in range(1, n - k + 2):
        for rest in _compositions(n - first, k - 1):
            yield (first, *rest)


def enum_phase(ctx):
    classes = list(ID_SETS)
    trees_cache = {}

    def gen():
        k = 0
        for cls in classes:
            ids = ID_SETS[cls]
            trees = trees_cache.setdefault(cls, _all_trees(ids, ctx.params["max_leaves"]))
            for tree in trees:
                for sp in ("word", "upper", "sym"):
                    for ch in ([], [1], [0, 1, 0, 1], [2, 0, 3]):
                        k += 1
                        if k % ctx.n_shards == ctx.shard:
                            yield {"tree": tree, "spelling": sp, "choices": ch, "variant": "commute", "other": ids[0]}

    done = ctx.run_enumeration(gen(), check_rule, "rule")
    ctx.exhaustive = bool(done)


def hyp_phase(ctx):
    ctx.run_hypothesis(rule_cases(), check_rule, "rule", ctx.params["max_examples"])


def rm_phase(ctx):
    ctx.run_hypothesis(remove_cases(), check_remove, "remove", ctx.params["max_examples"], seed_extra=5)


def fuzz_phase(ctx):
    from vfw import fuzz

    if not fuzz.available():
        ctx.notes.append("atheris not installed next to /venv (setup.sh installs it into /verif/.deps): campaign skipped")
        return
    fuzz.campaign(ctx, rule_cases(), check_rule, "rule", ctx.params["runs"], [])


def phases(tier):
    if tier == "quick":
        return [Phase("rules", hyp_phase, shards=5, params={"max_examples": 250, "budget_s": 70}),
                Phase("remove_genes", rm_phase, shards=3, params={"max_examples": 400, "budget_s": 70})]
    return [Phase("rules", hyp_phase, shards=8, params={"max_examples": 4000, "budget_s": 500}),
            Phase("remove_genes", rm_phase, shards=4, params={"max_examples": 5000, "budget_s": 500}),
            Phase("enum", enum_phase, shards=4, params={"max_leaves": 3, "budget_s": 520}),
            Phase("atheris", fuzz_phase, shards=4, params={"runs": 20000, "budget_s": 240, "instrument": ["cobra.core.gene"]})]


CHECKS = {"rule": check_rule, "remove": check_remove}
