"""C01 - the solver always holds exactly the model's flux-balance problem (after every step of any history)."""
from __future__ import annotations

from hypothesis import strategies as st

from vfw import build, observe, ops, specs
from vfw.engine import Phase, PropertyViolation

PROPERTY_ID = "C01"
RULE = (
    "Generator: ModelSpec (<=5 metabolites x <=6 reactions x <=6 genes, both interfaces) realised through one of 4 "
    "build paths, then 1-30 (quick) / 1-50 (thorough) operations drawn from the whole op table of vfw/ops.py "
    "(add/remove reactions, metabolites, boundaries, groups; stoichiometry edits incl. *=, +=, -=, "
    "build_reaction_from_string; bounds; rules; gene knock-out/removal/renaming; id renames; objective and "
    "direction; copy/deepcopy/pickle/merge; solver switch; contexts with nesting <=3; user constraints and "
    "variables; medium; repair; optimisations; failing ops included). Oracle: after every step the raw GLPK "
    "problem (swiglpk read-back) must equal the flux-balance problem derived from the public Python view "
    "(two non-negative columns per reaction spanning exactly the bounds, one zero-bounded row per metabolite with "
    "the stoichiometry, objective coefficients (c,-c) and direction as reported, nothing else except tracked user "
    "additions); after copy/pickle/merge the retired original is re-audited too. Non-trivial: >=3 successful "
    "mutating ops of which >=1 structural; distinct by canonical hash of (spec, path, ops)."
)
ASSUMPTIONS = [
    "Inside a context only operations documented as reversible are executed (others are skipped).",
    "While an analysis helper (add_pfba, add_moma, add_room, add_loopless, add_lp_feasibility, "
    "fix_objective_as_constraint, add_absolute_expression) is active inside a context the audit is suspended: "
    "their content is explicit user-requested content that the harness does not track item by item.",
    "Identifiers are whitespace-free (optlang rejects whitespace in names).",
]

STRUCTURAL = {"add_reactions", "readd", "remove_reactions", "add_metabolites", "remove_metabolites", "add_boundary", "rxn_add_mets",
              "imul", "iadd", "rename_rxn", "rename_met", "remove_genes", "from_string", "merge", "copy"}
PASSIVE = {"optimize", "repair", "enter", "exit"}


def case_strategy(max_ops=30, op_names=None, weights=None, **spec_kw):
    kw = dict(max_mets=5, max_rxns=6, max_genes=6, families=("sparse", "pathway", "degenerate"), groups=True)
    kw.update(spec_kw)
    return st.fixed_dictionaries({
        "spec": specs.model_spec(**kw),
        "path": st.sampled_from(build.BUILD_PATHS),
        "ops": ops.history_strategy(max_ops, op_names, weights or {"remove_reactions": 3, "detached_bounds": 3, "readd": 2},
                                    extra_inner=("detached_bounds",)),
    })


def audit_world(world, where):
    if not world.user["opaque"]:
        observe.audit_solver(world.model, ops.user_view(world.user, world.model), where)
    for k, old in enumerate(world.retired[-2:]):
        if not old["user"]["opaque"]:
            observe.audit_solver(old["model"], ops.user_view(old["user"], old["model"]), f"{where}:retired-{old['how']}")


def check_case(case, ctx):
    build.reset_globals()
    model = build.build_model(case["spec"], case["path"])
    world = ops.World(model, known=ctx.known, extra_in_context={"detached_bounds"})
    audit_world(world, "build")
    classes = set()
    state = {"n_struct": 0}

    def on_step(w, op, out):
        name = op["op"]
        audit_world(w, f"{name}[{out.split(':')[0]}]")
        classes.add(name)
        if out.startswith("raised"):
            classes.add("~raised")
        if out == "ok" and name in STRUCTURAL:
            state["n_struct"] += 1
        if name == "exit" and out == "ok":
            classes.add("~context-exit" + ("-" + op["_how"] if op.get("_how") else ""))
            if w.depth():
                classes.add("~nested-exit")

    world.on_step = on_step
    for op in case["ops"]:
        world.apply(op)
    n_struct = state["n_struct"]
    n_mut = sum(1 for t in world.trace if t["_outcome"] == "ok" and t["op"] not in PASSIVE)
    if world.retired:
        classes.add("~copied")
    classes.add(f"solver-{case['spec']['solver']}")
    return {"nontrivial": n_mut >= 3 and n_struct >= 1, "classes": sorted(classes)}



# three fixed base models for the pair enumerations (pathway with a reversible step and rules; sparse with an empty
# reaction and a duplicate column; one with groups)
def _m(i):
    return {"id": f"M{i}", "compartment": "c", "formula": None, "charge": None, "name": "", "notes": {}, "annotation": {}}


def _r(i, mets, lb, ub, gpr=None):
    return {"id": f"R{i}", "mets": mets, "lb": lb, "ub": ub, "gpr": gpr, "subsystem": "", "name": "", "notes": {}, "annotation": {}}


ENUM_SPECS = [
    {"id": "m", "name": None, "family": "pathway", "mets": [_m(0), _m(1), _m(2)],
     "rxns": [_r(0, {"M0": -1}, -10, 0), _r(1, {"M0": -1, "M1": 1}, 0, 1000, ["and", "g0", "g1"]), _r(2, {"M1": -1, "M2": 2}, -1000, 1000, ["or", "g1", "g2"]),
              _r(3, {"M2": -1}, 0, 1000, "g0"), _r(4, {"M0": -1, "M2": 1}, 0, 5)],
     "genes": [{"id": g, "name": "", "notes": {}, "annotation": {}} for g in ("g0", "g1", "g2")],
     "objective": {"R3": 1}, "direction": "max",
     "groups": [{"id": "grp0", "name": "", "kind": "collection", "members": [["r", "R1"], ["m", "M1"], ["g", "g0"]], "notes": {}, "annotation": {}}],
     "compartments": {}, "solver": "glpk", "cons": [], "notes": {}, "annotation": {}},
    {"id": "m", "name": None, "family": "sparse", "mets": [_m(0), _m(1)],
     "rxns": [_r(0, {"M0": 1}, 0, 10), _r(1, {"M0": -2, "M1": 1}, 0, 1000), _r(2, {"M1": -1}, -5, 1000), _r(3, {}, 0, 1000), _r(4, {"M0": -2, "M1": 1}, 0, 1000, "g0")],
     "genes": [{"id": "g0", "name": "", "notes": {}, "annotation": {}}],
     "objective": {"R2": 1, "R0": -0.5}, "direction": "min", "groups": [], "compartments": {}, "solver": "glpk_exact", "cons": [], "notes": {}, "annotation": {}},
]


def enum_phase(ctx):
    names = [n for n in ops.OPS if n not in ("helper", "enter", "exit", "tolerance", "inplace_meta", "optimize", "repair")]
    cases_ = (c for k, c in enumerate(ops.pair_cases(1, ENUM_SPECS, names, in_block=False, per_name=ctx.params["per_name"],
                                                     prefixes=ops.ENUM_PREFIXES, length=ctx.params.get("length", 2)))
              if k % ctx.n_shards == ctx.shard)
    done = ctx.run_enumeration(cases_, check_case, "history")
    ctx.exhaustive = bool(done)


def hyp_phase(ctx):
    ctx.run_hypothesis(case_strategy(ctx.params["max_ops"]), check_case, "history", ctx.params["max_examples"])


def phases(tier):
    if tier == "quick":
        return [Phase("hyp", hyp_phase, shards=8, params={"max_examples": 500, "max_ops": 30, "budget_s": 75, "crash_journal": True}),
                Phase("pairs", enum_phase, shards=8, params={"per_name": 2, "budget_s": 75, "crash_journal": True})]
    return [Phase("hyp", hyp_phase, shards=16, params={"max_examples": 1200, "max_ops": 50, "budget_s": 400, "crash_journal": True}),
            Phase("pairs", enum_phase, shards=16, params={"per_name": 3, "budget_s": 300, "crash_journal": True}),
            Phase("triples", enum_phase, shards=16, params={"per_name": 1, "length": 3, "budget_s": 300, "crash_journal": True})]


CHECKS = {"history": check_case}
