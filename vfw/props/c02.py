"""C02 - model edits do exactly what they document; cross-references stay consistent."""
from __future__ import annotations

from hypothesis import strategies as st

from vfw import build, observe, ops, refmodel, specs
from vfw.engine import Phase, PropertyViolation

PROPERTY_ID = "C02"
RULE = (
    "Generator: ModelSpec (<=5x6x6 with groups) realised through one of the build paths of vfw/build.py, then 1-30/50 editing "
    "operations outside contexts with all documented argument shapes (objects or ids, copies of model objects, "
    "combine/replace, destructive, remove_orphans, single vs list, failing arguments): add/remove reactions, "
    "metabolites, boundaries, groups and group members; prune_unused_metabolites/reactions; Reaction.add/subtract_metabolites, *=, +=, -=, "
    "build_reaction_from_string; bounds; rules (text and GPR); gene knock-outs; remove_genes; rename_genes; id "
    "renames; objective (7 shapes) and direction; merge; in-place metadata; copies, solver switches, repair and "
    "optimisations interleaved. Oracle: executable reference model of the documented semantics (vfw/refmodel.py, "
    "plain dicts) compared with the public Python view after every step, expected outcome ok/raises compared, a "
    "raising op must leave the state unchanged, plus the cross-reference audit. Phase escape: escape_ID on specs with "
    "rich identifiers, result compared with the model built from the spec renamed by the documented table (skipped "
    "when two identifiers escape to one), cross references and solver audited, then 0-2 further calls. "
    "Non-trivial: >=3 successful mutating "
    "ops from >=2 op kinds incl. >=1 structural; distinct by canonical hash."
)
ASSUMPTIONS = [
    "The reference encodes docstrings; where they are silent the statement of C02 decides (zero coefficients dropped, "
    "no dangling entries) - each such choice is commented in vfw/refmodel.py.",
    "add_boundary(type='exchange'): the external-compartment heuristic is not modelled; a refusal (ValueError/"
    "RuntimeError) is accepted if it changes nothing.",
    "List order is not compared (identifier sets are).",
    "Duplicate ids inside one add_reactions/add_metabolites list, `*= 0`, direct gene.id assignment and Model.medium "
    "(see C18) are not generated: no documentation defines them.",
]

NAMES = ["add_reactions", "readd", "readd", "detached_bounds", "detached_arith", "remove_reactions", "add_metabolites", "remove_metabolites", "add_boundary", "rxn_add_mets", "bounds", "bounds_seq",
         "rule", "gene_state", "knock_out_model_genes", "remove_genes", "rename_genes", "rename_rxn", "rename_met", "objective",
         "direction", "imul", "iadd", "copy", "solver", "optimize", "add_cons", "add_var", "remove_cons", "repair", "add_group",
         "remove_group", "group_members", "from_string", "inplace_meta", "tolerance", "merge", "prune"]
STRUCTURAL = {"add_reactions", "readd", "remove_reactions", "add_metabolites", "remove_metabolites", "add_boundary", "rxn_add_mets",
              "imul", "iadd", "rename_rxn", "rename_met", "remove_genes", "rename_genes", "from_string", "merge", "prune"}
PASSIVE = {"optimize", "repair", "copy", "solver", "add_cons", "add_var", "remove_cons", "detached_arith"}
# solver-side or analysis calls whose success depends on the solver (infeasible models, MILP on glpk_exact): either
# outcome is fine for C02, the content comparison still runs
OUTCOME_FREE = {"optimize", "add_var", "add_cons", "remove_cons", "solver"}
IGNORE = ("/model/n_contexts", "/interface", "/glpk", "/order")


def case_strategy(max_ops=30):
    weights = {n: 2 for n in STRUCTURAL}
    return st.fixed_dictionaries({
        "spec": specs.model_spec(max_mets=5, max_rxns=6, max_genes=6, families=("sparse", "pathway", "degenerate"), groups=True),
        "path": st.sampled_from(build.BUILD_PATHS),
        "ops": ops.history_strategy(max_ops, NAMES, weights, blocks=False),
    })


def _compare(model, ref, where, op=None):
    snap = observe.snapshot(model, with_solver=False)
    want = ref.render()
    snap["order"] = {k: sorted(v) for k, v in snap["order"].items()}
    for k in ("interface",):
        snap.pop(k, None)
    snap["model"].pop("n_contexts", None)
    d = observe.diff(want, snap, rel=1e-12, limit=5)
    if d:
        first = d[0].split(":")[0].strip("/").split("/")
        area = first[0]
        if len(first) >= 3 and area in ("reactions", "metabolites", "genes", "groups"):
            area += "-" + first[2].split("[")[0]
        raise PropertyViolation(f"{where}:content-{area}", f"after {op if op else where} the model differs from the documented result "
                                                            f"(reference != model): {d[:4]}")


def check_case(case, ctx):
    build.reset_globals()
    model = build.build_model(case["spec"], case["path"])
    ref = refmodel.Ref(case["spec"])
    world = ops.World(model, known=ctx.known)
    _compare(world.model, ref, "build")
    observe.audit_crossrefs(world.model, "build")
    kinds, n_mut, n_struct = set(), 0, 0
    classes = set()
    for op in case["ops"]:
        m = world.model
        o = {"r": [r.id for r in m.reactions], "m": [x.id for x in m.metabolites], "g": [g.id for g in m.genes],
             "grp": [g.id for g in m.groups]}
        if op["op"] in ("block", "enter", "exit", "helper", "medium"):
            break  # outside C02's domain (only reached when replaying a history recorded by another check)
        out = world.apply(op)
        name = op["op"]
        if out.startswith("skipped"):
            continue
        exp = ref.apply(op, o, out)
        if exp == "unmodelled":
            break  # replayed histories of other checks may contain ops outside C02's domain: stop there
        brief = {k: v for k, v in op.items()}
        if name in OUTCOME_FREE:
            exp = "ok" if not out.startswith("raised") else "raises:" + out.split(":", 1)[1]
        if exp == "ok" and out.startswith("raised"):
            raise PropertyViolation(f"{name}:unexpected-raise", f"{brief} raised {type(world.last_exception).__name__}: "
                                                                f"{str(world.last_exception)[:160]} but the documentation describes a successful call")
        if exp.startswith("raises"):
            types = exp.split(":", 1)[1].split("|")
            if not out.startswith("raised"):
                raise PropertyViolation(f"{name}:missing-raise", f"{brief} succeeded although the documentation says it raises {types}")
            if out.split(":", 1)[1] not in types:
                raise PropertyViolation(f"{name}:wrong-exception", f"{brief} raised {out.split(':', 1)[1]}, documented: {types}")
            classes.add("~documented-raise")
        if name == "prune" and out == "ok" and world.pruned[0] != world.pruned[1]:
            raise PropertyViolation("prune:wrong-list", f"{brief} reported {world.pruned[1]} as removed, unused were {world.pruned[0]}")
        _compare(world.model, ref, f"{name}[{out.split(':')[0]}]", brief)
        observe.audit_crossrefs(world.model, f"{name}[{out.split(':')[0]}]")
        for old in world.retired[-1:]:
            observe.audit_crossrefs(old["model"], f"{name}:retired")
        classes.add(name)
        if out == "ok" and name not in PASSIVE:
            n_mut += 1
            kinds.add(name)
            if name in STRUCTURAL:
                n_struct += 1
    for sig, n in world.excluded.items():
        ctx.excluded_by(sig, n)
    return {"nontrivial": n_mut >= 3 and len(kinds) >= 2 and n_struct >= 1, "classes": sorted(classes)}


# ------------------------------------------------------------------------------------------
# escape_ID: "Make all model component object IDs SBML compliant" with the replacement table of manipulation/modify.py
# ------------------------------------------------------------------------------------------
ESCAPE_TABLE = ((".", "_DOT_"), ("(", "_LPAREN_"), (")", "_RPAREN_"), ("-", "__"), ("[", "_LSQBKT"), ("]", "_RSQBKT"), (",", "_COMMA_"),
                (":", "_COLON_"), (">", "_GT_"), ("<", "_LT"), ("/", "_FLASH"), ("\\", "_BSLASH"), ("+", "_PLUS_"), ("=", "_EQ_"),
                (" ", "_SPACE_"), ("'", "_SQUOT_"), ('"', "_DQUOT_"))


def _escaped(s):
    for q in ("'", '"'):
        if s.startswith(q) and s.endswith(q) and s.count(q) == 2:
            s = s.strip(q)
    for a, b in ESCAPE_TABLE:
        s = s.replace(a, b)
    return s


def escape_strategy():
    return st.fixed_dictionaries({
        "spec": specs.model_spec(max_mets=4, max_rxns=5, max_genes=5, families=("sparse", "pathway"), ids="rich", groups=True),
        "path": st.sampled_from(build.BUILD_PATHS),
        "then": st.lists(st.sampled_from(["optimize", "remove_first_reaction", "knock_out_first_gene", "copy"]), max_size=2),
    })


def check_escape(case, ctx):
    import copy as _copy

    from cobra.manipulation import escape_ID

    build.reset_globals()
    spec = case["spec"]
    kinds = {"r": [r["id"] for r in spec["rxns"]], "m": [m["id"] for m in spec["mets"]], "g": [g["id"] for g in spec["genes"]]}
    maps = {k: {x: _escaped(x) for x in ids} for k, ids in kinds.items()}
    for k, mp in maps.items():
        if len(set(mp.values())) != len(mp) or any(not v for v in mp.values()):
            return {"nontrivial": False, "classes": ["escape-collision-skip"]}  # two identifiers escape to one: undefined
    # reaction ids name solver variables, "<id>_reverse_<hash>" included; metabolite ids name constraints
    changed = sum(1 for mp in maps.values() for a, b in mp.items() if a != b)
    model = build.build_model(spec, case["path"])
    try:
        escape_ID(model)
    except Exception as e:  # noqa: BLE001
        raise PropertyViolation("escape:raised", f"escape_ID raised {type(e).__name__}: {str(e)[:200]} for identifiers {kinds}")

    def ren_tree(t):
        if t is None or isinstance(t, str):
            return maps["g"].get(t, t)
        return [t[0], *[ren_tree(x) for x in t[1:]]]

    want = _copy.deepcopy(spec)
    want["id"] = _escaped(spec["id"]) if isinstance(spec.get("id"), str) else spec.get("id")
    for r in want["rxns"]:
        r["id"] = maps["r"][r["id"]]
        r["mets"] = {maps["m"][m]: c for m, c in r["mets"].items()}
        r["gpr"] = ren_tree(r["gpr"])
    for m in want["mets"]:
        m["id"] = maps["m"][m["id"]]
    for g in want["genes"]:
        g["id"] = maps["g"][g["id"]]
    want["objective"] = {maps["r"][rid]: c for rid, c in spec["objective"].items()}
    for grp in want.get("groups", []):
        grp["members"] = [[k, maps[k][x]] for k, x in grp["members"]]
    for c in want.get("cons", []):
        c["coefs"] = {maps["r"][rid]: k for rid, k in c["coefs"].items()}
    expected = build.build_model(want, "bulk")
    a, b = observe.snapshot(expected), observe.snapshot(model)
    for snap in (a, b):
        snap["order"] = {k: sorted(v) for k, v in snap["order"].items()}
    d = observe.diff(a, b, rel=1e-12, limit=5, ignore=("/model/n_contexts", "/interface", "/model/name"))
    if d:
        area = d[0].split(":")[0].strip("/").split("/")[0]
        raise PropertyViolation(f"escape:content-{area}", f"after escape_ID the model is not the model with every identifier replaced by the documented "
                                                          f"table (expected != model): {d[:4]}; identifiers {kinds}")
    observe.audit_crossrefs(model, "escape")
    observe.audit_solver(model, None, "escape")
    classes = ["escape", f"escape-changed-{min(changed, 3)}"]
    # the escaped model keeps working: later edits and a copy see the new identifiers
    for step in case["then"]:
        if step == "optimize":
            model.slim_optimize()
        elif step == "remove_first_reaction" and len(model.reactions):
            model.remove_reactions([model.reactions[0].id])
        elif step == "knock_out_first_gene" and len(model.genes):
            model.genes.get_by_id(model.genes[0].id).knock_out()
        elif step == "copy":
            model = model.copy()
        observe.audit_crossrefs(model, f"escape-then-{step}")
        observe.audit_solver(model, None, f"escape-then-{step}")
        classes.append(f"then-{step}")
    return {"nontrivial": changed >= 2, "classes": classes}


def hyp_phase(ctx):
    ctx.run_hypothesis(case_strategy(ctx.params["max_ops"]), check_case, "edits", ctx.params["max_examples"])


def escape_phase(ctx):
    ctx.run_hypothesis(escape_strategy(), check_escape, "escape", ctx.params["max_examples"])


def enum_phase(ctx):
    """All ordered pairs of concrete op instances on two fixed base models after two prefixes (small scope, complete)."""
    from vfw.props.c01 import ENUM_SPECS

    names = list(dict.fromkeys(NAMES))
    cases_ = (c for k, c in enumerate(ops.pair_cases(1, ENUM_SPECS, names, in_block=False, per_name=ctx.params["per_name"],
                                                     prefixes=ops.ENUM_PREFIXES, length=ctx.params.get("length", 2)))
              if k % ctx.n_shards == ctx.shard)
    done = ctx.run_enumeration(cases_, check_case, "edits")
    ctx.exhaustive = bool(done)


def phases(tier):
    if tier == "quick":
        return [Phase("hyp", hyp_phase, shards=8, params={"max_examples": 900, "max_ops": 30, "budget_s": 75, "crash_journal": True}),
                Phase("pairs", enum_phase, shards=8, params={"per_name": 2, "budget_s": 75, "crash_journal": True}),
                Phase("escape", escape_phase, shards=2, params={"max_examples": 250, "budget_s": 40, "crash_journal": True})]
    return [Phase("hyp", hyp_phase, shards=16, params={"max_examples": 2500, "max_ops": 50, "budget_s": 400, "crash_journal": True}),
            Phase("pairs", enum_phase, shards=16, params={"per_name": 3, "budget_s": 300, "crash_journal": True}),
            Phase("triples", enum_phase, shards=16, params={"per_name": 1, "length": 3, "budget_s": 300, "crash_journal": True}),
            Phase("escape", escape_phase, shards=16, params={"max_examples": 1500, "budget_s": 200, "crash_journal": True})]


CHECKS = {"edits": check_case, "history": check_case, "escape": check_escape}
