"""C02 - model edits do exactly what they document; cross-references stay consistent."""
from __future__ import annotations

from hypothesis import strategies as st

from vfw import build, observe, ops, refmodel, specs
from vfw.engine import Phase, PropertyViolation

PROPERTY_ID = "C02"
RULE = (
    "Generator: ModelSpec (<=5x6x6 with groups) realised through one of 4 build paths, then 1-30/50 editing "
    "operations outside contexts with all documented argument shapes (objects or ids, copies of model objects, "
    "combine/replace, destructive, remove_orphans, single vs list, failing arguments): add/remove reactions, "
    "metabolites, boundaries, groups and group members; Reaction.add/subtract_metabolites, *=, +=, -=, "
    "build_reaction_from_string; bounds; rules (text and GPR); gene knock-outs; remove_genes; rename_genes; id "
    "renames; objective (7 shapes) and direction; merge; in-place metadata; copies, solver switches, repair and "
    "optimisations interleaved. Oracle: executable reference model of the documented semantics (vfw/refmodel.py, "
    "plain dicts) compared with the public Python view after every step, expected outcome ok/raises compared, a "
    "raising op must leave the state unchanged, plus the cross-reference audit. Non-trivial: >=3 successful mutating "
    "ops from >=2 op kinds incl. >=1 structural; distinct by canonical hash."
)
ASSUMPTIONS = [
    "The reference encodes docstrings; where they are silent the statement of C02 decides (zero coefficients dropped, "
    "no dangling entries) - each such choice is commented in vfw/refmodel.py.",
    "add_boundary(type='exchange'): the external-compartment heuristic is not modelled; a refusal (ValueError/"
    "RuntimeError) is accepted if it changes nothing.",
    "List order is not compared (identifier sets are).",
    "Duplicate ids inside one add_reactions/add_metabolites list, `*= 0`, direct gene.id assignment and Model.medium "
    "(see C18) are not generated: no documentation defines them.",
]

NAMES = ["add_reactions", "readd", "readd", "detached_bounds", "detached_arith", "remove_reactions", "add_metabolites", "remove_metabolites", "add_boundary", "rxn_add_mets", "bounds", "bounds_seq",
         "rule", "gene_state", "knock_out_model_genes", "remove_genes", "rename_genes", "rename_rxn", "rename_met", "objective",
         "direction", "imul", "iadd", "copy", "solver", "optimize", "add_cons", "add_var", "remove_cons", "repair", "add_group",
         "remove_group", "group_members", "from_string", "inplace_meta", "tolerance", "merge", "prune"]
STRUCTURAL = {"add_reactions", "readd", "remove_reactions", "add_metabolites", "remove_metabolites", "add_boundary", "rxn_add_mets",
              "imul", "iadd", "rename_rxn", "rename_met", "remove_genes", "rename_genes", "from_string", "merge", "prune"}
PASSIVE = {"optimize", "repair", "copy", "solver", "add_cons", "add_var", "remove_cons", "detached_arith"}
# solver-side or analysis calls whose success depends on the solver (infeasible models, MILP on glpk_exact): either
# outcome is fine for C02, the content comparison still runs
OUTCOME_FREE = {"optimize", "add_var", "add_cons", "remove_cons", "solver"}
IGNORE = ("/model/n_contexts", "/interface", "/glpk", "/order")


def case_strategy(max_ops=30):
    weights = {n: 2 for n in STRUCTURAL}
    return st.fixed_dictionaries({
        "spec": specs.model_spec(max_mets=5, max_rxns=6, max_genes=6, families=("sparse", "pathway", "degenerate"), groups=True),
        "path": st.sampled_from(build.BUILD_PATHS),
        "ops": ops.history_strategy(max_ops, NAMES, weights, blocks=False),
    })


def _compare(model, ref, where, op=None):
    snap = observe.snapshot(model, with_solver=False)
    want = ref.render()
    snap["order"] = {k: sorted(v) for k, v in snap["order"].items()}
    for k in ("interface",):
        snap.pop(k, None)
    snap["model"].pop("n_contexts", None)
    d = observe.diff(want, snap, rel=1e-12, limit=5)
    if d:
        first = d[0].split(":")[0].strip("/").split("/")
        area = first[0]
        if len(first) >= 3 and area in ("reactions", "metabolites", "genes", "groups"):
            area += "-" + first[2].split("[")[0]
        raise PropertyViolation(f"{where}:content-{area}", f"after {op if op else where} the model differs from the documented result "
                                                            f"(reference != model): {d[:4]}")


def check_case(case, ctx):
    build.reset_globals()
    model = build.build_model(case["spec"], case["path"])
    ref = refmodel.Ref(case["spec"])
    world = ops.World(model, known=ctx.known)
    _compare(world.model, ref, "build")
    observe.audit_crossrefs(world.model, "build")
    kinds, n_mut, n_struct = set(), 0, 0
    classes = set()
    for op in case["ops"]:
        m = world.model
        o = {"r": [r.id for r in m.reactions], "m": [x.id for x in m.metabolites], "g": [g.id for g in m.genes],
             "grp": [g.id for g in m.groups]}
        if op["op"] in ("block", "enter", "exit", "helper", "medium"):
            break  # outside C02's domain (only reached when replaying a history recorded by another check)
        out = world.apply(op)
        name = op["op"]
        if out.startswith("skipped"):
            continue
        exp = ref.apply(op, o, out)
        if exp == "unmodelled":
            break  # replayed histories of other checks may contain ops outside C02's domain: stop there
        brief = {k: v for k, v in op.items()}
        if name in OUTCOME_FREE:
            exp = "ok" if not out.startswith("raised") else "raises:" + out.split(":", 1)[1]
        if exp == "ok" and out.startswith("raised"):
            raise PropertyViolation(f"{name}:unexpected-raise", f"{brief} raised {type(world.last_exception).__name__}: "
                                                                f"{str(world.last_exception)[:160]} but the documentation describes a successful call")
        if exp.startswith("raises"):
            types = exp.split(":", 1)[1].split("|")
            if not out.startswith("raised"):
                raise PropertyViolation(f"{name}:missing-raise", f"{brief} succeeded although the documentation says it raises {types}")
            if out.split(":", 1)[1] not in types:
                raise PropertyViolation(f"{name}:wrong-exception", f"{brief} raised {out.split(':', 1)[1]}, documented: {types}")
            classes.add("~documented-raise")
        if name == "prune" and out == "ok" and world.pruned[0] != world.pruned[1]:
            raise PropertyViolation("prune:wrong-list", f"{brief} reported {world.pruned[1]} as removed, unused were {world.pruned[0]}")
        _compare(world.model, ref, f"{name}[{out.split(':')[0]}]", brief)
        observe.audit_crossrefs(world.model, f"{name}[{out.split(':')[0]}]")
        for old in world.retired[-1:]:
            observe.audit_crossrefs(old["model"], f"{name}:retired")
        classes.add(name)
        if out == "ok" and name not in PASSIVE:
            n_mut += 1
            kinds.add(name)
            if name in STRUCTURAL:
                n_struct += 1
    for sig, n in world.excluded.items():
        ctx.excluded_by(sig, n)
    return {"nontrivial": n_mut >= 3 and len(kinds) >= 2 and n_struct >= 1, "classes": sorted(classes)}


def hyp_phase(ctx):
    ctx.run_hypothesis(case_strategy(ctx.params["max_ops"]), check_case, "edits", ctx.params["max_examples"])


def enum_phase(ctx):
    """All ordered pairs of concrete op instances on two fixed base models after two prefixes (small scope, complete)."""
    from vfw.props.c01 import ENUM_SPECS

    names = list(dict.fromkeys(NAMES))
    cases_ = (c for k, c in enumerate(ops.pair_cases(1, ENUM_SPECS, names, in_block=False, per_name=ctx.params["per_name"],
                                                     prefixes=ops.ENUM_PREFIXES, length=ctx.params.get("length", 2)))
              if k % ctx.n_shards == ctx.shard)
    done = ctx.run_enumeration(cases_, check_case, "edits")
    ctx.exhaustive = bool(done)


def phases(tier):
    if tier == "quick":
        return [Phase("hyp", hyp_phase, shards=8, params={"max_examples": 900, "max_ops": 30, "budget_s": 75, "crash_journal": True}),
                Phase("pairs", enum_phase, shards=8, params={"per_name": 2, "budget_s": 75, "crash_journal": True})]
    return [Phase("hyp", hyp_phase, shards=16, params={"max_examples": 2500, "max_ops": 50, "budget_s": 400, "crash_journal": True}),
            Phase("pairs", enum_phase, shards=16, params={"per_name": 3, "budget_s": 300, "crash_journal": True}),
            Phase("triples", enum_phase, shards=16, params={"per_name": 1, "length": 3, "budget_s": 300, "crash_journal": True})]


CHECKS = {"edits": check_case, "history": check_case}
