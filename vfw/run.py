"""CLI:  python -m vfw.run <Cxx> --tier quick|thorough [--replay file.json]"""
import argparse
import os
import sys
import traceback


def main() -> int:
    ap = argparse.ArgumentParser()
    ap.add_argument("prop")
    ap.add_argument("--tier", default=os.environ.get("VERIF_TIER", "quick"), choices=["quick", "thorough"])
    ap.add_argument("--replay")
    ap.add_argument("--seed", type=int, default=None)
    a = ap.parse_args()
    seed = a.seed if a.seed is not None else int(os.environ.get("VERIF_SEED", "1") or 1)
    try:
        from vfw import engine

        if a.replay:
            return engine.run_replay(a.prop, a.replay)
        return engine.run_check(a.prop, a.tier, seed)
    except SystemExit:
        raise
    except BaseException as e:  # noqa: BLE001
        print("HARNESS-ERROR", "".join(traceback.format_exception(type(e), e, e.__traceback__))[-4000:])
        return 2


if __name__ == "__main__":
    sys.exit(main())
