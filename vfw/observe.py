"""Observation of a cobra model as pure data: public Python view + raw GLPK read-back + cross-reference audit."""
from __future__ import annotations

import itertools
import math
from typing import Any, Dict, List, Optional

from vfw.engine import PropertyViolation

INF = float("inf")


# ------------------------------------------------------------------------------------------
# raw GLPK problem
# ------------------------------------------------------------------------------------------
def _observing(fn):
    """Reading a model through its public accessors must not raise: an exception here (a reaction without its solver
    variables, an identifier index that points nowhere) means the model is incoherent, which is a violation of the
    state properties, not a harness error."""
    import functools

    @functools.wraps(fn)
    def wrapper(model, *a, **kw):
        try:
            return fn(model, *a, **kw)
        except PropertyViolation:
            raise
        except Exception as e:  # noqa: BLE001
            import traceback

            frames = [f for f in traceback.extract_tb(e.__traceback__) if "/cobra/" in f.filename]
            at = f"{frames[-1].filename.split('/cobra/')[-1]}:{frames[-1].name}" if frames else "?"
            where = kw.get("where") or "observe"
            raise PropertyViolation(f"{where}:model-unreadable:{type(e).__name__}:{at}",
                                    f"reading the model through its public accessors raised {type(e).__name__}: {str(e)[:200]} (in {at})")

    return wrapper


def glpk_readback(model) -> Dict[str, Any]:
    """Read the problem held by GLPK itself (not optlang's bookkeeping)."""
    import swiglpk as g

    try:
        model.solver.update()
    except Exception as e:  # noqa: BLE001 - pending changes that cannot be applied: the problem is not well defined
        raise PropertyViolation("lp-update-raises", f"solver.update() raises {type(e).__name__}: {str(e)[:200]}")
    P = model.solver.problem
    ncol, nrow = g.glp_get_num_cols(P), g.glp_get_num_rows(P)

    DBL_MAX = 1.7976931348623157e308

    def bounds(t, lb, ub):
        # GLPK (and optlang's GLPK text round trip) use +-DBL_MAX for "no bound": every representable flux
        # satisfies |v| <= DBL_MAX and GLPK itself treats it as infinite, so it is decoded as infinity.
        lb = -INF if lb <= -DBL_MAX else lb
        ub = INF if ub >= DBL_MAX else ub
        if t == g.GLP_FR:
            return (-INF, INF)
        if t == g.GLP_LO:
            return (lb, INF)
        if t == g.GLP_UP:
            return (-INF, ub)
        if t == g.GLP_DB:
            return (lb, ub)
        return (lb, lb)  # GLP_FX

    cols, names = {}, [None]
    dup = []
    for j in range(1, ncol + 1):
        name = g.glp_get_col_name(P, j)
        names.append(name)
        kind = {g.GLP_CV: "continuous", g.GLP_IV: "integer", g.GLP_BV: "binary"}[g.glp_get_col_kind(P, j)]
        lb, ub = bounds(g.glp_get_col_type(P, j), g.glp_get_col_lb(P, j), g.glp_get_col_ub(P, j))
        if name in cols:
            dup.append(name)
        cols[name] = {"kind": kind, "lb": lb, "ub": ub, "obj": g.glp_get_obj_coef(P, j)}
    rows = {}
    ind, val = g.intArray(ncol + 1), g.doubleArray(ncol + 1)
    for i in range(1, nrow + 1):
        name = g.glp_get_row_name(P, i)
        lb, ub = bounds(g.glp_get_row_type(P, i), g.glp_get_row_lb(P, i), g.glp_get_row_ub(P, i))
        k = g.glp_get_mat_row(P, i, ind, val)
        coefs = {}
        for t in range(1, k + 1):
            if val[t] != 0.0:
                coefs[names[ind[t]]] = coefs.get(names[ind[t]], 0.0) + val[t]
        if name in rows:
            dup.append(name)
        rows[name] = {"lb": lb, "ub": ub, "coefs": coefs}
    return {
        "cols": cols,
        "rows": rows,
        "direction": "max" if g.glp_get_obj_dir(P) == g.GLP_MAX else "min",
        "obj_const": g.glp_get_obj_coef(P, 0),
        "duplicate_names": dup,
    }


# ------------------------------------------------------------------------------------------
# GPR truth tables (independent evaluator lives in gprtree; here: through the public eval)
# ------------------------------------------------------------------------------------------
def rule_table(reaction) -> Optional[Dict[str, Any]]:
    """Truth table of the reaction's rule over its own gene set via GPR.eval (<= 6 genes -> <= 64 rows)."""
    gpr = reaction.gpr
    genes = sorted(gpr.genes)
    if len(genes) > 8:
        return {"genes": genes, "table": None}
    table = []
    for r in range(len(genes) + 1):
        for ko in itertools.combinations(genes, r):
            table.append(bool(gpr.eval(set(ko))))
    return {"genes": genes, "table": table}


# ------------------------------------------------------------------------------------------
# python-side snapshot
# ------------------------------------------------------------------------------------------
def _plain(o):
    """deep plain copy of notes/annotation style containers"""
    if isinstance(o, dict):
        return {str(k): _plain(v) for k, v in o.items()}
    if isinstance(o, (list, tuple)):
        return [_plain(v) for v in o]
    if isinstance(o, (set, frozenset)):
        return sorted((_plain(v) for v in o), key=repr)
    if isinstance(o, float) and math.isnan(o):
        return "nan"
    return o


@_observing
def snapshot(model, with_solver: bool = True, with_tables: bool = True) -> Dict[str, Any]:
    from cobra.util.solver import linear_reaction_coefficients

    snap: Dict[str, Any] = {}
    snap["model"] = {"id": model.id, "name": model.name, "notes": _plain(model.notes),
                     "annotation": _plain(model.annotation), "compartments": _plain(model.compartments),
                     "tolerance": model.tolerance, "n_contexts": len(getattr(model, "_contexts", []) or [])}
    try:
        obj = {r.id: c for r, c in linear_reaction_coefficients(model).items()}
    except Exception as e:  # noqa: BLE001
        obj = {"__error__": type(e).__name__}
    snap["objective"] = obj
    snap["direction"] = model.objective_direction
    snap["interface"] = model.problem.__name__
    snap["order"] = {
        "reactions": [r.id for r in model.reactions],
        "metabolites": [m.id for m in model.metabolites],
        "genes": [g.id for g in model.genes],
        "groups": [g.id for g in model.groups],
    }
    rx = {}
    for r in model.reactions:
        rx[r.id] = {
            "bounds": (r.lower_bound, r.upper_bound),
            "mets": {m.id: c for m, c in r.metabolites.items()},
            "rule": rule_table(r) if with_tables else r.gene_reaction_rule,
            "genes": sorted(g.id for g in r.genes),
            "name": r.name,
            "subsystem": r.subsystem,
            "notes": _plain(r.notes),
            "annotation": _plain(r.annotation),
        }
    snap["reactions"] = rx
    snap["metabolites"] = {
        m.id: {"name": m.name, "formula": m.formula, "charge": m.charge, "compartment": m.compartment,
               "notes": _plain(m.notes), "annotation": _plain(m.annotation),
               "reactions": sorted(r.id for r in m.reactions)}
        for m in model.metabolites
    }
    snap["genes"] = {
        g.id: {"name": g.name, "functional": g.functional, "notes": _plain(g.notes),
               "annotation": _plain(g.annotation), "reactions": sorted(r.id for r in g.reactions)}
        for g in model.genes
    }
    snap["groups"] = {
        g.id: {"name": g.name, "kind": g.kind, "notes": _plain(g.notes), "annotation": _plain(g.annotation),
               "members": sorted((type(x).__name__, str(x.id)) for x in g.members)}
        for g in model.groups
    }
    if with_solver:
        snap["glpk"] = glpk_readback(model)
    return snap


def diff(a: Any, b: Any, path: str = "", rel: float = 0.0, out: Optional[List[str]] = None, limit: int = 8,
         ignore=()) -> List[str]:
    """Human readable differences between two snapshots (dict/list/scalars)."""
    if out is None:
        out = []
    if len(out) >= limit:
        return out
    if any(path.startswith(p) for p in ignore):
        return out
    if isinstance(a, dict) and isinstance(b, dict):
        for k in sorted(set(a) | set(b), key=str):
            if k not in a:
                out.append(f"{path}/{k}: missing on left, right={_short(b[k])}")
            elif k not in b:
                out.append(f"{path}/{k}: left={_short(a[k])}, missing on right")
            else:
                diff(a[k], b[k], f"{path}/{k}", rel, out, limit, ignore)
            if len(out) >= limit:
                break
        return out
    if isinstance(a, (list, tuple)) and isinstance(b, (list, tuple)):
        if len(a) != len(b):
            out.append(f"{path}: length {len(a)} vs {len(b)}: {_short(a)} vs {_short(b)}")
            return out
        for i, (x, y) in enumerate(zip(a, b)):
            diff(x, y, f"{path}[{i}]", rel, out, limit, ignore)
        return out
    if isinstance(a, bool) or isinstance(b, bool) or not (isinstance(a, (int, float)) and isinstance(b, (int, float))):
        if a != b or type(a) is not type(b) and not (isinstance(a, (int, float)) and isinstance(b, (int, float))):
            if a != b:
                out.append(f"{path}: {_short(a)} != {_short(b)}")
        return out
    if not num_eq(a, b, rel):
        out.append(f"{path}: {a!r} != {b!r}")
    return out


def num_eq(a, b, rel: float = 0.0) -> bool:
    if a == b:
        return True
    if isinstance(a, float) and isinstance(b, float) and math.isnan(a) and math.isnan(b):
        return True
    if rel and math.isfinite(a) and math.isfinite(b):
        return abs(a - b) <= rel * max(1.0, abs(a), abs(b))
    return False


def _short(x, n=120):
    s = repr(x)
    return s if len(s) <= n else s[:n] + "..."


def reorder_free(snap: Dict[str, Any]) -> Dict[str, Any]:
    """Copy of a snapshot with list orders dropped (C03 allows list order to change)."""
    s = dict(snap)
    s["order"] = {k: sorted(v) for k, v in snap["order"].items()}
    return s


# ------------------------------------------------------------------------------------------
# audits
# ------------------------------------------------------------------------------------------
@_observing
def audit_crossrefs(model, where: str = "audit") -> None:
    """Cross-reference consistency stated by C02 (raises PropertyViolation)."""

    def bad(kind, msg):
        raise PropertyViolation(f"{where}:xref-{kind}", msg)

    for name in ("reactions", "metabolites", "genes", "groups"):
        dl = getattr(model, name)
        ids = [x.id for x in dl]
        if len(set(ids)) != len(ids):
            bad("dup-id", f"duplicate ids in model.{name}: {ids}")
        for i, x in enumerate(dl):
            try:
                found = dl.get_by_id(x.id)
            except KeyError:
                bad("lookup", f"model.{name}.get_by_id({x.id!r}) fails for a listed object")
            if found is not x:
                bad("lookup", f"model.{name}.get_by_id({x.id!r}) is not the listed object")
            if dl.index(x.id) != i:
                bad("lookup", f"model.{name}.index({x.id!r}) != {i}")
            owner = x.model if hasattr(type(x), "model") else x._model  # Group has no public accessor
            if owner is not model:
                bad("model-pointer", f"{name[:-1]} {x.id!r} in model.{name} reports model={owner!r}")
    rset = set(map(id, model.reactions))
    for r in model.reactions:
        for m, c in r.metabolites.items():
            if c == 0:
                bad("zero-coef", f"reaction {r.id} keeps zero coefficient for {m.id}")
            if m.id not in model.metabolites or model.metabolites.get_by_id(m.id) is not m:
                bad("foreign-met", f"reaction {r.id} refers to metabolite {m.id!r} that is not the model's object")
            if r not in m.reactions:
                bad("met-backref", f"reaction {r.id} lists {m.id} but the metabolite does not list the reaction")
        rule_genes = set(r.gpr.genes)
        if {g.id for g in r.genes} != rule_genes:
            bad("genes-vs-rule", f"reaction {r.id}: genes {sorted(g.id for g in r.genes)} != genes of rule {sorted(rule_genes)} ({r.gene_reaction_rule!r})")
        for g in r.genes:
            if g.id not in model.genes or model.genes.get_by_id(g.id) is not g:
                bad("foreign-gene", f"reaction {r.id} refers to gene {g.id!r} that is not the model's object")
            if r not in g.reactions:
                bad("gene-backref", f"reaction {r.id} lists gene {g.id} but the gene does not list the reaction")
    for m in model.metabolites:
        for r in m.reactions:
            if id(r) not in rset:
                bad("dangling-rxn", f"metabolite {m.id} lists reaction {r.id!r} that is not in the model")
            if m not in r.metabolites:
                bad("met-backref", f"metabolite {m.id} lists reaction {r.id} but the reaction does not list it")
    for g in model.genes:
        for r in g.reactions:
            if id(r) not in rset:
                bad("dangling-rxn", f"gene {g.id} lists reaction {r.id!r} that is not in the model")
            if g not in r.genes:
                bad("gene-backref", f"gene {g.id} lists reaction {r.id} but the reaction does not list it")
    for grp in model.groups:
        for x in grp.members:
            kind = type(x).__name__
            dl = {"Reaction": model.reactions, "Metabolite": model.metabolites, "Gene": model.genes,
                  "Group": model.groups}.get(kind)
            if dl is None or x.id not in dl or dl.get_by_id(x.id) is not x:
                bad("group-member", f"group {grp.id} holds {kind} {x.id!r} that is not an object of the model")


@_observing
def audit_solver(model, user_cons_vars: Optional[Dict[str, Any]] = None, where: str = "audit") -> None:
    """C01: the raw GLPK problem is exactly the flux-balance problem of the model (+ user additions).

    user_cons_vars: {"vars": {name: (lb, ub, kind)}, "cons": {name: (lb, ub, {col: coef})}} tracked by the
    harness for what the history added explicitly; None means 'none added'.
    """
    import hashlib

    def bad(kind, msg):
        raise PropertyViolation(f"{where}:lp-{kind}", msg)

    user_cons_vars = user_cons_vars or {"vars": {}, "cons": {}}
    P = glpk_readback(model)
    if P["duplicate_names"]:
        bad("dup-name", f"duplicate names in solver: {P['duplicate_names']}")
    cols, rows = dict(P["cols"]), dict(P["rows"])
    from cobra.util.solver import linear_reaction_coefficients

    objc = {r.id: c for r, c in linear_reaction_coefficients(model).items()}
    expected_row: Dict[str, Dict[str, float]] = {m.id: {} for m in model.metabolites}
    for r in model.reactions:
        fid = r.id
        rid = "_".join((r.id, "reverse", hashlib.md5(r.id.encode("utf-8")).hexdigest()[0:5]))
        if r.reverse_id != rid:
            bad("reverse-id", f"reverse_id of {r.id} is {r.reverse_id!r}")
        for name in (fid, rid):
            if name not in cols:
                bad("missing-col", f"reaction {r.id}: column {name!r} missing from the solver")
        f, v = cols.pop(fid), cols.pop(rid)
        for name, c in ((fid, f), (rid, v)):
            if c["kind"] != "continuous":
                bad("col-kind", f"column {name} is {c['kind']}")
            if c["lb"] < 0:
                bad("col-sign", f"column {name} may go negative: lb={c['lb']}")
        lo, hi = f["lb"] - v["ub"], f["ub"] - v["lb"]
        lb, ub = r.lower_bound, r.upper_bound
        if not (num_eq(lo, lb) and num_eq(hi, ub)):
            bad("bounds", f"reaction {r.id} bounds {(lb, ub)} but solver net range is {(lo, hi)} "
                          f"(fwd [{f['lb']},{f['ub']}], rev [{v['lb']},{v['ub']}])")
        c = objc.get(r.id, 0.0)
        if not (num_eq(f["obj"], c) and num_eq(v["obj"], -c)):
            bad("objective", f"reaction {r.id} reports objective coefficient {c} but columns carry ({f['obj']}, {v['obj']})")
        try:
            if r.forward_variable.name != fid or r.reverse_variable.name != rid:
                bad("var-link", f"forward/reverse_variable of {r.id} resolve to {r.forward_variable.name}/{r.reverse_variable.name}")
        except PropertyViolation:
            raise
        except Exception as e:  # noqa: BLE001
            bad("var-link", f"forward/reverse_variable of {r.id} raise {type(e).__name__}: {e}")
        for m, s in r.metabolites.items():
            if m.id in expected_row:
                expected_row[m.id][fid] = expected_row[m.id].get(fid, 0.0) + s
                expected_row[m.id][rid] = expected_row[m.id].get(rid, 0.0) - s
    for mid, want in expected_row.items():
        if mid not in rows:
            bad("missing-row", f"metabolite {mid}: no row in the solver")
        row = rows.pop(mid)
        if not (row["lb"] == 0 and row["ub"] == 0):
            bad("row-bounds", f"row {mid} has bounds ({row['lb']}, {row['ub']})")
        want_all = {k: v for k, v in want.items() if v != 0}
        if set(row["coefs"]) != set(want_all) or any(not num_eq(row["coefs"][k], want_all[k], 1e-12) for k in want_all):
            bad("stoichiometry", f"row {mid}: solver has {row['coefs']} but stoichiometry gives {want_all}")
    # leftovers must be exactly the user's additions
    for name, (lb, ub, kind) in user_cons_vars["vars"].items():
        if name not in cols:
            bad("user-var-missing", f"user variable {name} missing")
        c = cols.pop(name)
        if not (num_eq(c["lb"], lb) and num_eq(c["ub"], ub) and c["kind"] == kind):
            bad("user-var", f"user variable {name}: {c} vs {(lb, ub, kind)}")
        if not num_eq(c["obj"], user_cons_vars.get("var_obj", {}).get(name, 0.0)):
            bad("objective", f"user variable {name} has objective coefficient {c['obj']}")
    for name, (lb, ub, coefs) in user_cons_vars["cons"].items():
        if name not in rows:
            bad("user-con-missing", f"user constraint {name} missing")
        row = rows.pop(name)
        if not (num_eq(row["lb"], lb) and num_eq(row["ub"], ub)):
            bad("user-con", f"user constraint {name}: bounds ({row['lb']},{row['ub']}) vs ({lb},{ub})")
        if set(row["coefs"]) != set(coefs) or any(not num_eq(row["coefs"][k], coefs[k], 1e-12) for k in coefs):
            bad("user-con", f"user constraint {name}: coefs {row['coefs']} vs {coefs}")
    if user_cons_vars.get("opaque"):
        cols, rows = {}, {}  # temporary helper content (add_pfba & co) is not tracked item by item
    if cols:
        bad("extra-col", f"solver holds columns that belong to nothing in the model: {sorted(cols)}")
    if rows:
        bad("extra-row", f"solver holds rows that belong to nothing in the model: {sorted(rows)}")
    if P["direction"] != model.objective_direction:
        bad("direction", f"solver direction {P['direction']} vs reported {model.objective_direction}")
    if P["obj_const"] != 0:
        bad("objective", f"objective constant {P['obj_const']}")
