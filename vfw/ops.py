"""Pure-data operations on a cobra model: strategies and the executor (SUT side).

An op is a dict {"op": name, ...}.  Entities are selected by small integers resolved modulo the current
count, so every drawn op is applicable to whatever state the history reached (no rejection).  The executor
records the outcome ("ok" | "raised:<Type>" | "skipped:<why>") - the list of executed ops is the replay.
"""
from __future__ import annotations

import copy as _copy
import pickle
from typing import Any, Dict, List, Optional

from hypothesis import strategies as st

from vfw import gprtree, specs

N_RID, N_MID, N_GID = 12, 8, 8
# the last entries are identifiers that make the operation fail: a clash with a user variable of that name (if one
# exists at that moment) and identifiers the solver layer rejects (whitespace). A failing operation must change nothing.
RID = [f"R{i}" for i in range(N_RID)] + ["uvar0", "uvar1", "R 1"]
MID = [f"M{i}" for i in range(N_MID)] + ["M 1"]
GID = [f"g{i}" for i in range(N_GID)]

# ops that the documentation (docstrings / @resettable / statement of C03) declares reversible in a context
REVERSIBLE = {
    "add_reactions", "readd", "remove_reactions", "add_metabolites", "remove_metabolites", "add_boundary", "rxn_add_mets",
    "bounds", "bounds_seq", "rule", "gene_state", "knock_out_model_genes", "objective", "direction", "imul", "iadd", "isub",
    "remove_genes", "rename_genes", "add_cons", "add_var", "remove_cons", "medium", "optimize", "solver",
    "from_string", "merge", "helper", "detached_arith",
}

_k = st.integers(0, 23)
_rid_new = st.one_of(*([st.integers(0, N_RID - 1)] * 5), st.integers(N_RID, N_RID + 2))
_mid_new = st.one_of(*([st.integers(0, N_MID - 1)] * 7), st.just(N_MID))
_coef = st.sampled_from([-3, -2, -1, -1, 1, 1, 2, 3, 0.5, -1.5])
_coef0 = st.sampled_from([-3, -2, -1, -1, 1, 1, 2, 3, 0.5, -1.5, 0, 0.0])  # "If the final coefficient is 0 the metabolite is removed"
_bnd = specs.bounds("general")
_trees = gprtree.opt_trees(GID[:6], max_fan=3)


def _d(_opname, **kw):
    return st.fixed_dictionaries({"op": st.just(_opname), **kw})


def _rxn_spec(idx):
    return st.fixed_dictionaries({
        "id": idx,
        "mets": st.lists(st.tuples(st.integers(0, N_MID - 1), _coef), max_size=3, unique_by=lambda t: t[0]),
        "b": _bnd,
        "rule": _trees,
        "met_mode": st.sampled_from(["model", "model", "copy", "fresh"]),
    })


_new_rxn_plain = _rxn_spec(st.integers(0, N_RID - 1))
_new_rxn = st.fixed_dictionaries({
    "id": _rid_new,
    "mets": st.lists(st.tuples(st.integers(0, N_MID - 1), _coef), max_size=3, unique_by=lambda t: t[0]),
    "b": _bnd,
    "rule": _trees,
    "met_mode": st.sampled_from(["model", "model", "copy", "fresh"]),
})

OPS: Dict[str, Any] = {
    "add_reactions": _d("add_reactions", rxns=st.lists(_new_rxn, min_size=1, max_size=3, unique_by=lambda d: d["id"]),
                        own=st.sampled_from([False, False, True])),
    "remove_reactions": _d("remove_reactions", sels=st.lists(_k, min_size=1, max_size=3), by=st.sampled_from(["obj", "id", "mixed", "dictlist"]),
                           orphans=st.booleans(), single=st.booleans(), via=st.sampled_from(["model", "model", "rxn"])),
    "readd": _d("readd", k=_k),
    "detached_bounds": _d("detached_bounds", k=_k, b=_bnd),
    # pure functions of a reaction object that is outside the model but still refers to the model's metabolites and genes
    "detached_arith": _d("detached_arith", k=_k, kind=st.sampled_from(["copy", "copy", "mul", "add", "sub"])),
    "add_metabolites": _d("add_metabolites", mets=st.lists(_mid_new, min_size=1, max_size=3, unique=True), single=st.booleans(),
                          own=st.booleans()),
    "remove_metabolites": _d("remove_metabolites", sels=st.lists(_k, min_size=1, max_size=2), destructive=st.booleans(),
                             via=st.sampled_from(["model", "model", "met"])),
    "add_boundary": _d("add_boundary", met=_k, type=st.sampled_from(["exchange", "demand", "sink", "custom"]),
                       rid=st.one_of(st.none(), _rid_new), b=st.one_of(st.none(), _bnd)),
    "rxn_add_mets": _d("rxn_add_mets", rxn=_k, mets=st.lists(st.tuples(st.integers(0, N_MID - 1), _coef0, st.sampled_from(["obj", "obj", "id", "copy"])),
                                                                min_size=1, max_size=3, unique_by=lambda t: t[0]),
                       combine=st.booleans(), subtract=st.booleans()),
    # several single-bound assignments on ONE reaction (lower, upper, lower, ...): every assignment is valid where it is
    # made (an assignment that would cross the other bound is left out), but undoing them in another order may not be
    "bounds_seq": _d("bounds_seq", rxn=_k, first=st.sampled_from(["lb", "ub"]),
                     vals=st.lists(st.sampled_from([-20, -4, 0, 2, 8, 20, 50, -1000, 1000]), min_size=3, max_size=5)),
    "bounds": _d("bounds", rxn=_k, kind=st.sampled_from(["lb", "ub", "both", "both", "knock_out"]), b=_bnd,
                 raw=st.tuples(st.sampled_from([-10, 0, 5, 1000, -1000]), st.sampled_from([-5, 0, 10, 1000]))),
    "rule": _d("rule", rxn=_k, tree=_trees, spelling=st.sampled_from(["word", "word", "upper", "sym"]), via=st.sampled_from(["text", "text", "gpr"])),
    "gene_state": _d("gene_state", gene=_k, how=st.sampled_from(["knock_out", "knock_out", "off", "on"])),
    "knock_out_model_genes": _d("knock_out_model_genes", genes=st.lists(_k, min_size=1, max_size=3), by=st.sampled_from(["obj", "id", "index"])),
    "remove_genes": _d("remove_genes", genes=st.lists(_k, min_size=1, max_size=2), remove_reactions=st.booleans(), by=st.sampled_from(["obj", "id"])),
    "rename_genes": _d("rename_genes", pairs=st.lists(st.tuples(_k, st.integers(0, N_GID - 1)), min_size=1, max_size=3, unique_by=lambda t: t[0])),
    "rename_rxn": _d("rename_rxn", rxn=_k, new=_rid_new),
    "rename_met": _d("rename_met", met=_k, new=_mid_new),
    "objective": _d("objective", kind=st.sampled_from(["rxn", "id", "index", "dict", "list", "coef", "coef", "obj_same_min", "obj_same_max", "obj_new_min", "obj_new_max", "expr"]), rxns=st.lists(_k, min_size=1, max_size=3),
                    coefs=st.lists(st.sampled_from([1, 1, -1, 2, 0.5, 0]), min_size=3, max_size=3)),
    "direction": _d("direction", value=st.sampled_from(["max", "min", "min", "maximize", "MIN", "bogus"])),
    "imul": _d("imul", rxn=_k, factor=st.sampled_from([2, 0.5, -1, -2, 3, 1.5])),
    "iadd": _d("iadd", rxn=_k, other=_k, foreign=st.booleans(), sub=st.booleans()),
    "copy": _d("copy", how=st.sampled_from(["copy", "copy", "deepcopy", "pickle"])),
    # prune_unused_metabolites / prune_unused_reactions: "returns a new model" - the history continues on it, the argument
    # is kept and re-audited like the original of a copy
    "prune": _d("prune", what=st.sampled_from(["mets", "rxns"])),
    "solver": _d("solver", name=st.sampled_from(["glpk", "glpk_exact"])),
    "enter": _d("enter"),
    "exit": _d("exit"),
    "optimize": _d("optimize", how=st.sampled_from(["optimize", "slim", "minimize", "raise"])),
    "add_cons": _d("add_cons", name=st.integers(0, 3), rxns=st.lists(_k, min_size=1, max_size=2), coefs=st.lists(st.sampled_from([1, -1, 2]), min_size=2, max_size=2),
                   b=st.sampled_from([(None, 5), (-5, None), (0, 0), (1, 1), (-10, 10)]),
                   # the constraint may be named after the reaction it caps (constraints and variables have separate names)
                   like_rxn=st.sampled_from([False, False, False, True])),
    "add_var": _d("add_var", name=st.integers(0, 3), b=st.sampled_from([(0, None), (0, 10), (-5, 5), (None, 3)]), kind=st.sampled_from(["continuous", "continuous", "binary"])),
    "remove_cons": _d("remove_cons", what=st.sampled_from(["con", "var"]), name=st.integers(0, 3)),
    "medium": _d("medium", entries=st.lists(st.tuples(_k, st.sampled_from([0, 1, 10, 1000, 2.5])), max_size=3, unique_by=lambda t: t[0])),
    "repair": _d("repair"),
    "add_group": _d("add_group", gid=st.integers(0, 3), kind=st.sampled_from(["collection", "classification", "partonomy"]),
                    members=st.lists(st.tuples(st.sampled_from(["r", "m", "g"]), _k), max_size=3)),
    "remove_group": _d("remove_group", grp=_k, by=st.sampled_from(["obj", "obj", "single"])),
    "group_members": _d("group_members", grp=_k, add=st.booleans(), members=st.lists(st.tuples(st.sampled_from(["r", "m", "g"]), _k), min_size=1, max_size=2)),
    # a metabolite may occur in several terms (twice on one side, on both sides): the equation means its net coefficient
    "from_string": _d("from_string", rxn=_k, lhs=st.lists(st.tuples(st.integers(0, N_MID - 1), st.sampled_from([1, 1, 2, 0.5, 0])), max_size=3),
                      rhs=st.lists(st.tuples(st.integers(0, N_MID - 1), st.sampled_from([1, 1, 3, 2])), max_size=3),
                      arrow=st.sampled_from(["-->", "<=>", "<--", "->", "<->"])),
    "inplace_meta": _d("inplace_meta", kind=st.sampled_from(["r", "m", "g", "model", "grp"]), sel=_k, what=st.sampled_from(["notes", "annotation", "name", "compartments", "ann_list", "ann_list"]),
                       key=st.sampled_from(["k1", "k2", "sbo"]), val=st.sampled_from(["v1", "v2", "SBO:0000627"])),
    "tolerance": _d("tolerance", value=st.sampled_from([1e-7, 1e-6, 1e-9])),
    "helper": _d("helper", which=st.sampled_from(["fix_objective", "fix_objective", "add_pfba", "add_moma", "add_room", "add_loopless", "add_lp_feasibility", "abs_expr"]),
                 frac=st.sampled_from([1.0, 0.5, 0.9]), rxn=_k),
    "merge": _d("merge", rxns=st.lists(_new_rxn_plain, min_size=1, max_size=2, unique_by=lambda d: d["id"]), prefix=st.sampled_from([None, None, "x_"]), objective=st.sampled_from(["left", "left", "right", "sum"]),
                inplace=st.booleans()),
}


def history_strategy(max_ops: int = 30, names: Optional[List[str]] = None, weights: Optional[Dict[str, int]] = None,
                     blocks: bool = True, block_weight: int = 4, extra_inner=()):
    """Lists of ops; `block` ops are whole `with model:` blocks (enter, inner ops, exit) with optional nesting,
    an optional harness fault position (the block ends by an exception) and a propagate flag (the first inner
    op that raises ends the block, as an uncaught exception would)."""
    names = list(OPS) if names is None else names
    base = op_strategy(names, weights)
    if not blocks:
        top = base
    else:
        inner_names = [n for n in names if n in REVERSIBLE or n in extra_inner]
        inner = op_strategy(inner_names, weights)

        def mk(children):
            return st.fixed_dictionaries({
                "op": st.just("block"),
                "ops": st.lists(children, min_size=1, max_size=6),
                "fault": st.one_of(st.none(), st.none(), st.integers(0, 5)),
                "propagate": st.booleans(),
            })

        block = st.recursive(mk(inner), lambda ch: mk(st.one_of(inner, inner, ch)), max_leaves=12)
        top = st.one_of(*([base] * block_weight), block)
    return st.one_of(st.lists(top, min_size=1, max_size=max_ops), st.lists(top, min_size=min(8, max_ops), max_size=max_ops))


def op_strategy(names: Optional[List[str]] = None, weights: Optional[Dict[str, int]] = None):
    names = list(OPS) if names is None else names
    pool = []
    for n in names:
        pool.extend([OPS[n]] * (weights or {}).get(n, 1))
    return st.one_of(*pool)


# ------------------------------------------------------------------------------------------
# executor
# ------------------------------------------------------------------------------------------
def user_from_spec(model, spec):
    """Tracking record for the user constraints that build_model created from spec['cons']."""
    cons = {}
    for c in spec.get("cons", []):
        cons[c["name"]] = (float("-inf") if c["lb"] is None else c["lb"], float("inf") if c["ub"] is None else c["ub"],
                           [(model.reactions.get_by_id(rid), k) for rid, k in c["coefs"].items()])
    return {"vars": {}, "cons": cons, "opaque": False}


def user_copy(user):
    return {"vars": dict(user["vars"]), "cons": dict(user["cons"]), "opaque": user["opaque"]}


def user_remap(user, new_model, old_model=None):
    """User additions as seen from a copy: reaction references re-pointed by id - only those of reactions that belong to
    the model that was copied (a reaction of an earlier model of the history, pruned away since, has lost its columns for
    good even if the copy has a new reaction of that name)."""
    cons = {}
    for name, (lb, ub, terms) in user["cons"].items():
        cons[name] = (lb, ub, [(new_model.reactions.get_by_id(r.id) if (r.model is not None and (old_model is None or r.model is old_model)
                                                                        and r.id in new_model.reactions) else r, c)
                               for r, c in terms])
    return {"vars": dict(user["vars"]), "cons": cons, "opaque": user["opaque"]}


def user_view(user, model):
    """Expected raw content of the user's explicit additions right now (coefficients by column name)."""
    cons = {}
    for name, (lb, ub, terms) in user["cons"].items():
        coefs = {}
        for r, c in terms:
            if r.model is model:
                coefs[r.id] = coefs.get(r.id, 0) + c
                coefs[r.reverse_id] = coefs.get(r.reverse_id, 0) - c
        cons[name] = (lb, ub, {k: v for k, v in coefs.items() if v != 0})
    return {"vars": dict(user["vars"]), "cons": cons, "opaque": user["opaque"]}


class World:
    """The SUT side of a history."""

    def __init__(self, model, user=None, known=(), extra_in_context=()):
        self.model = model
        self.known = frozenset(known)
        self.extra_in_context = frozenset(extra_in_context)  # ops a property allows inside a block beyond REVERSIBLE
        self.detached: List[Any] = []  # reaction objects taken out inside the currently open contexts
        self.excluded: Dict[str, int] = {}
        # explicitly added solver objects, tracked so that C01 can tell them from garbage
        self.user = user or {"vars": {}, "cons": {}, "opaque": False}
        self.ctx_stack: List[Dict[str, Any]] = []
        self.retired: List[Any] = []  # (model, user) pairs left behind by copy ops
        self.trace: List[Dict[str, Any]] = []
        self.graveyard: List[Any] = []  # reaction objects taken out by remove_reactions (re-added by "readd")
        self.in_block = 0
        self.on_step = None  # callback(world, op, outcome) after every primitive step
        self.effective = 0
        self.groups_used = set()

    def _count_excluded(self, sig):
        self.excluded[sig] = self.excluded.get(sig, 0) + 1

    def _exact_copy_blocks(self) -> bool:
        """Known finding glpk-exact-copy-vartype: a copied/unpickled glpk_exact model holds glpk_interface
        variables; re-adding removed variables/constraints on context exit raises. Removals inside a context are
        not generated for such models while the finding is listed."""
        if "glpk-exact-copy-vartype" not in self.known or not self.depth():
            return False
        # detected on the model itself (it may have been copied or unpickled before the history started: build paths)
        solver = self.model.solver
        # variables *and* constraints (a model without reactions at copy time has rows only; seed 6 of a quick-tier sweep)
        mixed = any(type(v).__module__ != type(solver).__module__ for v in (*solver.variables, *solver.constraints))
        if (mixed or getattr(self, "exact_copy", False)) and self.model.problem.__name__.endswith("glpk_exact_interface"):
            self._count_excluded("glpk-exact-copy-vartype")
            return True
        return False

    # -- selection helpers -------------------------------------------------------------------
    @staticmethod
    def pick(dl, k):
        return dl[k % len(dl)] if len(dl) else None

    def depth(self):
        return len(self.ctx_stack)

    def _met_for(self, idx, mode):
        from cobra import Metabolite

        mid = MID[idx]
        m = self.model
        if mode == "model" and mid in m.metabolites:
            return m.metabolites.get_by_id(mid)
        return Metabolite(mid, compartment="c")

    def _make_rxn(self, d, model=None):
        from cobra import Reaction

        lb, ub = d["b"]
        r = Reaction(RID[d["id"]], lower_bound=lb, upper_bound=ub)
        mets = {}
        for idx, c in d["mets"]:
            mets[self._met_for(idx, d["met_mode"])] = c
        r.add_metabolites(mets)
        if d["rule"] is not None:
            r.gene_reaction_rule = gprtree.render(d["rule"])
        return r

    # -- the ops -----------------------------------------------------------------------------
    def apply(self, op: Dict[str, Any]) -> str:
        name = op["op"]
        if name == "block":
            return self.run_block(op)
        if self.depth() and name not in REVERSIBLE and name not in ("enter", "exit", "copy", "prune") and name not in self.extra_in_context:
            out = "skipped:not-reversible-in-context"
        elif self.in_block and name in ("copy", "prune", "enter", "exit") and not op.get("_block"):
            out = "skipped:inside-block"
        else:
            fn = getattr(self, "op_" + name)
            try:
                out = fn(op) or "ok"
            except Exception as e:  # noqa: BLE001 - the outcome is data; properties decide what it means
                out = f"raised:{type(e).__name__}"
                self.last_exception = e
        self.trace.append({**op, "_outcome": out})
        if out == "ok":
            self.effective += 1
        if self.on_step:
            self.on_step(self, op, out)
        return out

    def run_block(self, op) -> str:
        """A whole `with model:` block. Ends normally, by a harness fault, or by the first raising inner op."""
        if self.depth() >= 3:
            return "skipped:depth"
        self.in_block += 1
        try:
            if self.apply({"op": "enter", "_block": True}) != "ok":
                return "skipped:enter-failed"
            how = "normal"
            for i, inner in enumerate(op["ops"]):
                if op["fault"] is not None and i == op["fault"]:
                    how = "fault"
                    break
                out = self.apply(inner)
                if out.startswith("raised") and op["propagate"]:
                    how = "exception"
                    break
            out = self.apply({"op": "exit", "_block": True, "_how": how})
            return f"block:{how}:{out}"
        finally:
            self.in_block -= 1

    def op_add_reactions(self, op):
        # identifiers the model already has are "ignored"; they come as other objects with that id or (own) as the model's
        # own reaction objects
        m = self.model
        m.add_reactions([(m.reactions.get_by_id(RID[d["id"]]) if op.get("own") and RID[d["id"]] in m.reactions else self._make_rxn(d))
                         for d in op["rxns"]])

    def op_remove_reactions(self, op):
        m = self.model
        if not len(m.reactions):
            return "skipped:empty"
        picked = []
        for i, k in enumerate(op["sels"]):
            r = self.pick(m.reactions, k)
            as_id = op["by"] == "id" or (op["by"] == "mixed" and i % 2)
            picked.append(r.id if as_id else r)
        if self._exact_copy_blocks():
            return "skipped:known-glpk-exact-copy-vartype"
        objs = [self.pick(m.reactions, k) for k in op["sels"]]
        if op["via"] == "rxn" or op["single"]:
            objs = objs[:1]
        objs = list(dict.fromkeys(objs))
        if op["by"] == "dictlist":  # e.g. model.remove_reactions(model.reactions.query(...))
            from cobra import DictList

            picked = DictList(objs)
        try:
            if op["via"] == "rxn":
                objs[0].remove_from_model(remove_orphans=op["orphans"])
            elif op["single"]:
                m.remove_reactions(picked[0], remove_orphans=op["orphans"])
            else:
                m.remove_reactions(picked, remove_orphans=op["orphans"])
        finally:
            if self.depth():
                self.detached.extend(r for r in objs if r.model is None)
            if not self.depth():  # inside a context the removal is undone on exit: the object comes back by itself
                gone = [r for r in objs if r.model is None]
                self.graveyard.extend(gone)
                # the columns are deleted for good: user constraints lose these terms even if the object returns
                for name, (lb, ub, terms) in list(self.user["cons"].items()):
                    self.user["cons"][name] = (lb, ub, [(r, c) for r, c in terms if all(r is not g for g in gone)])

    def op_detached_bounds(self, op):
        """Edit the bounds of a reaction object while it is outside the model (no context can record that)."""
        pool = self.graveyard + self.detached
        if not pool:
            return "skipped:empty"
        r = pool[op["k"] % len(pool)]
        if r.model is not None:
            return "skipped:attached"
        r.bounds = tuple(op["b"])

    def op_detached_arith(self, op):
        """Reaction.copy / * / + / - on a reaction that was taken out of the model: they return new objects and must leave
        the model (whose metabolites and genes the reaction still refers to) alone."""
        pool = self.graveyard + self.detached
        if not pool:
            return "skipped:empty"
        r = pool[op["k"] % len(pool)]
        if r.model is not None:
            return "skipped:attached"
        if op["kind"] == "copy":
            r.copy()
        elif op["kind"] == "mul":
            r * 2
        else:
            other = self.pick(self.model.reactions, op["k"]) if len(self.model.reactions) else r
            (r + other) if op["kind"] == "add" else (r - other)

    def op_readd(self, op):
        """Give a reaction object that remove_reactions took out back to the model (the same object)."""
        if not self.graveyard:
            return "skipped:empty"
        r = self.graveyard[op["k"] % len(self.graveyard)]
        if r.model is not None:
            return "skipped:already-back"
        self.model.add_reactions([r])
        if r.model is self.model:
            # the object comes back with new columns: terms that user constraints had on its old columns (it may have been
            # taken out inside the current context, where only the undo would bring them back) are not part of them
            for name, (lb, ub, terms) in list(self.user["cons"].items()):
                self.user["cons"][name] = (lb, ub, [(x, c) for x, c in terms if x is not r])

    def op_add_metabolites(self, op):
        from cobra import Metabolite

        # identifiers the model already has are "ignored" by the call; they come as other objects with the same id or
        # (own) as the model's own metabolite objects, e.g. model.add_metabolites(reaction.metabolites)
        m = self.model
        mets = [(m.metabolites.get_by_id(MID[i]) if op.get("own") and MID[i] in m.metabolites else Metabolite(MID[i], compartment="c"))
                for i in op["mets"]]
        m.add_metabolites(mets[0] if op["single"] else mets)

    def op_remove_metabolites(self, op):
        m = self.model
        if not len(m.metabolites):
            return "skipped:empty"
        picked = list(dict.fromkeys(self.pick(m.metabolites, k) for k in op["sels"]))
        if self._exact_copy_blocks():
            return "skipped:known-glpk-exact-copy-vartype"
        if op["via"] == "met":
            picked[0].remove_from_model(destructive=op["destructive"])
        else:
            m.remove_metabolites(picked, destructive=op["destructive"])

    def op_add_boundary(self, op):
        m = self.model
        if not len(m.metabolites):
            return "skipped:empty"
        met = self.pick(m.metabolites, op["met"])
        kw = {}
        if op["rid"] is not None:
            kw["reaction_id"] = RID[op["rid"]]
        if op["b"] is not None:
            kw["lb"], kw["ub"] = op["b"]
        if op["type"] == "custom":
            kw["sbo_term"] = "SBO:0000632"
        m.add_boundary(met, type=op["type"], **kw)

    def op_rxn_add_mets(self, op):
        from cobra import Metabolite

        m = self.model
        if not len(m.reactions):
            return "skipped:empty"
        r = self.pick(m.reactions, op["rxn"])
        arg = {}
        for idx, c, kind in op["mets"]:
            mid = MID[idx]
            if kind == "id":
                arg[mid] = c
            elif kind == "obj" and mid in m.metabolites:
                arg[m.metabolites.get_by_id(mid)] = c
            else:
                arg[Metabolite(mid, compartment="c")] = c
        if op["subtract"]:
            r.subtract_metabolites(arg, combine=op["combine"])
        else:
            r.add_metabolites(arg, combine=op["combine"])

    def op_bounds_seq(self, op):
        m = self.model
        if not len(m.reactions):
            return "skipped:empty"
        r = self.pick(m.reactions, op["rxn"])
        attr = op["first"]
        for v in op["vals"]:
            if attr == "lb" and v <= r.upper_bound:
                r.lower_bound = v
            elif attr == "ub" and v >= r.lower_bound:
                r.upper_bound = v
            attr = "ub" if attr == "lb" else "lb"

    def op_bounds(self, op):
        m = self.model
        if not len(m.reactions):
            return "skipped:empty"
        r = self.pick(m.reactions, op["rxn"])
        lb, ub = op["b"]
        if op["kind"] == "lb":
            r.lower_bound = op["raw"][0]
        elif op["kind"] == "ub":
            r.upper_bound = op["raw"][1]
        elif op["kind"] == "both":
            r.bounds = op["raw"] if op["rxn"] % 3 == 0 else (lb, ub)
        else:
            r.knock_out()

    def op_rule(self, op):
        from cobra.core.gene import GPR

        m = self.model
        if not len(m.reactions):
            return "skipped:empty"
        r = self.pick(m.reactions, op["rxn"])
        text = gprtree.render(op["tree"], op["spelling"])
        if op["via"] == "gpr":
            r.gpr = GPR.from_string(text)
        else:
            r.gene_reaction_rule = text

    def op_gene_state(self, op):
        m = self.model
        if not len(m.genes):
            return "skipped:empty"
        g = self.pick(m.genes, op["gene"])
        if op["how"] == "knock_out":
            g.knock_out()
        else:
            g.functional = op["how"] == "on"

    def op_knock_out_model_genes(self, op):
        from cobra.manipulation import knock_out_model_genes

        m = self.model
        if not len(m.genes):
            return "skipped:empty"
        genes = [self.pick(m.genes, k) for k in op["genes"]]
        arg = [g if op["by"] == "obj" else (g.id if op["by"] == "id" else m.genes.index(g)) for g in genes]
        knock_out_model_genes(m, arg)

    def op_remove_genes(self, op):
        from cobra.manipulation import remove_genes

        m = self.model
        if not len(m.genes):
            return "skipped:empty"
        genes = list(dict.fromkeys(self.pick(m.genes, k) for k in op["genes"]))
        if op["remove_reactions"] and self._exact_copy_blocks():
            return "skipped:known-glpk-exact-copy-vartype"
        remove_genes(m, genes if op["by"] == "obj" else [g.id for g in genes], remove_reactions=op["remove_reactions"])

    def op_rename_genes(self, op):
        from cobra.manipulation import rename_genes

        m = self.model
        if not len(m.genes):
            return "skipped:empty"
        d = {}
        for k, new in op["pairs"]:
            old = self.pick(m.genes, k).id
            if old not in d and GID[new] not in d and old not in d.values():  # no chains (documented as undefined); two genes may share a target
                d[old] = GID[new]
        rename_genes(m, d)

    def op_rename_rxn(self, op):
        m = self.model
        if not len(m.reactions):
            return "skipped:empty"
        self.pick(m.reactions, op["rxn"]).id = RID[op["new"]]

    def op_rename_met(self, op):
        m = self.model
        if not len(m.metabolites):
            return "skipped:empty"
        self.pick(m.metabolites, op["met"]).id = MID[op["new"]]

    def op_objective(self, op):
        m = self.model
        if not len(m.reactions):
            return "skipped:empty"
        rx = list(dict.fromkeys(self.pick(m.reactions, k) for k in op["rxns"]))
        kind = op["kind"]
        if kind == "rxn":
            m.objective = rx[0]
        elif kind == "id":
            m.objective = rx[0].id
        elif kind == "index":
            m.objective = m.reactions.index(rx[0])
        elif kind == "list":
            m.objective = [r.id if i % 2 else r for i, r in enumerate(rx)]
        elif kind == "dict":
            m.objective = {r: c for r, c in zip(rx, op["coefs"])}
        elif kind == "expr":
            # a bare symbolic expression: "directly interpreted as objective", the direction stays as it is
            terms = [(r, c) for r, c in zip(rx, op["coefs"]) if c != 0]
            if not terms:
                return "skipped:zero-expression"
            m.objective = sum(c * r.flux_expression for r, c in terms)
        elif kind.startswith("obj_"):
            # an optlang Objective carries its own direction; "same": the current expression with a (possibly) other direction
            if kind.startswith("obj_same"):
                expr = m.objective.expression
            else:
                expr = sum(c * r.flux_expression for r, c in zip(rx, op["coefs"]))
            m.objective = m.problem.Objective(expr, direction=kind[-3:])
        else:
            rx[0].objective_coefficient = op["coefs"][0]

    def op_direction(self, op):
        self.model.objective_direction = op["value"]

    def op_imul(self, op):
        m = self.model
        if not len(m.reactions):
            return "skipped:empty"
        r = self.pick(m.reactions, op["rxn"])
        r *= op["factor"]

    def op_iadd(self, op):
        m = self.model
        if not len(m.reactions):
            return "skipped:empty"
        r = self.pick(m.reactions, op["rxn"])
        other = self.pick(m.reactions, op["other"])
        if other is r:
            return "skipped:same-reaction"
        if op["foreign"]:
            other = other.copy()
        if op["sub"]:
            r -= other
        else:
            r += other

    def op_copy(self, op):
        m = self.model
        if op["how"] == "copy":
            new = m.copy()
        elif op["how"] == "deepcopy":
            new = _copy.deepcopy(m)
        else:
            new = pickle.loads(pickle.dumps(m))
        self.on_copy(m, new, op["how"])
        return "ok"

    def op_prune(self, op):
        from cobra.manipulation import prune_unused_metabolites, prune_unused_reactions

        m = self.model
        mets = op["what"] == "mets"
        unused = sorted(x.id for x in (m.metabolites if mets else m.reactions) if len(x.reactions if mets else x.metabolites) == 0)
        new, removed = (prune_unused_metabolites if mets else prune_unused_reactions)(m)
        self.on_copy(m, new, "prune")
        self.pruned = (unused, sorted(x.id for x in removed))  # documented second return value: what was removed
        return "ok"

    def on_copy(self, old, new, how):
        """Continue on the copy; keep the original for re-audits. Open contexts stay with the original."""
        self.retired.append({"model": old, "user": user_copy(self.user), "ctx_stack": self.ctx_stack, "how": how})
        self.model = new
        self.user = user_remap(self.user, new, old)
        self.ctx_stack = []
        self.graveyard = []  # those objects belong to the history of the original
        self.detached = []
        if new.problem.__name__.endswith("glpk_exact_interface"):
            self.exact_copy = True

    def op_solver(self, op):
        if "solver-switch-in-context" in self.known and self.depth() and not self.model.problem.__name__.endswith(op["name"] + "_interface"):
            self._count_excluded("solver-switch-in-context")
            return "skipped:known-solver-switch-in-context"
        before = self.model.problem
        self.model.solver = op["name"]
        if self.model.problem is not before:
            self.exact_copy = False  # Model.clone builds variables of the right class

    def op_enter(self, op):
        if self.depth() >= 3:
            return "skipped:depth"
        self.model.__enter__()
        self.ctx_stack.append({"user": user_copy(self.user)})
        self.on_enter()

    def on_enter(self):
        pass

    def op_exit(self, op):
        if not self.depth():
            return "skipped:no-context"
        frame = self.ctx_stack.pop()
        self.pending_exit_frame = frame
        if not self.ctx_stack:
            self.detached = []
        self.model.__exit__(None, None, None)
        self.user = frame["user"]

    def op_optimize(self, op):
        m = self.model
        if op["how"] == "slim":
            m.slim_optimize()
        elif op["how"] == "minimize":
            m.optimize(objective_sense="minimize")
        elif op["how"] == "raise":
            m.optimize(raise_error=True)
        else:
            m.optimize()

    def op_add_cons(self, op):
        m = self.model
        if not len(m.reactions):
            return "skipped:empty"
        name = f"ucon{op['name']}"
        # a name that is already taken is attempted too: the call must raise and leave the problem usable
        rx = list(dict.fromkeys(self.pick(m.reactions, k) for k in op["rxns"]))
        if op.get("like_rxn") and rx[0].id not in m.metabolites:
            name = rx[0].id
        coefs, expr = [], 0
        for r, c in zip(rx, op["coefs"]):
            expr = expr + c * r.flux_expression
            coefs.append((r, c))
        lb, ub = op["b"]
        m.add_cons_vars([m.problem.Constraint(expr, lb=lb, ub=ub, name=name)])
        self.user["cons"][name] = (float("-inf") if lb is None else lb, float("inf") if ub is None else ub, coefs)

    def op_add_var(self, op):
        m = self.model
        name = f"uvar{op['name']}"
        lb, ub = op["b"]
        kind = op["kind"]
        if kind == "binary":
            lb, ub = 0, 1
        m.add_cons_vars([m.problem.Variable(name, lb=lb, ub=ub, type=kind)])
        self.user["vars"][name] = (float("-inf") if lb is None else lb, float("inf") if ub is None else ub, kind)

    def op_remove_cons(self, op):
        m = self.model
        if self._exact_copy_blocks():
            return "skipped:known-glpk-exact-copy-vartype"
        if op["what"] == "con":
            name = f"ucon{op['name']}"
            if name not in self.user["cons"] or name not in m.constraints:
                return "skipped:absent"
            m.remove_cons_vars([m.constraints[name]])
            del self.user["cons"][name]
        else:
            name = f"uvar{op['name']}"
            if name not in self.user["vars"] or name not in m.variables:
                return "skipped:absent"
            m.remove_cons_vars([m.variables[name]])
            del self.user["vars"][name]

    def op_medium(self, op):
        m = self.model
        ex = m.exchanges
        if not ex:
            return "skipped:no-exchanges"
        med = {}
        for k, v in op["entries"]:
            r = ex[k % len(ex)]
            # only values that cannot trip lb > ub (documented precondition of the bound setters)
            if r.reactants and -v > r.upper_bound:
                continue
            if (not r.reactants) and v < r.lower_bound:
                continue
            med[r.id] = v
        for r in ex:  # closing import must also be a valid bound assignment
            if r.id not in med and ((r.reactants and r.upper_bound < 0) or (not r.reactants and r.products and r.lower_bound > 0)):
                return "skipped:forced-exchange"
        m.medium = med

    def op_repair(self, op):
        self.model.repair()

    def _members(self, sels):
        m = self.model
        out = []
        for kind, k in sels:
            dl = {"r": m.reactions, "m": m.metabolites, "g": m.genes}[kind]
            x = self.pick(dl, k)
            if x is not None and x not in out:
                out.append(x)
        return out

    def op_add_group(self, op):
        from cobra.core import Group

        g = Group(f"grp{op['gid']}", members=self._members(op["members"]), kind=op["kind"])
        self.model.add_groups([g])

    def op_remove_group(self, op):
        m = self.model
        if not len(m.groups):
            return "skipped:empty"
        g = self.pick(m.groups, op["grp"])
        m.remove_groups(g if op["by"] == "single" else [g])

    def op_group_members(self, op):
        m = self.model
        if not len(m.groups):
            return "skipped:empty"
        g = self.pick(m.groups, op["grp"])
        mem = self._members(op["members"])
        if not mem:
            return "skipped:empty"
        (g.add_members if op["add"] else g.remove_members)(mem)

    def op_from_string(self, op):
        m = self.model
        if not len(m.reactions):
            return "skipped:empty"
        r = self.pick(m.reactions, op["rxn"])

        def side(terms):
            return " + ".join((f"{c} {MID[i]}" if c != 1 else MID[i]) for i, c in terms)

        text = f"{side(op['lhs'])} {op['arrow']} {side(op['rhs'])}"
        r.build_reaction_from_string(text, verbose=False)
        return "ok"

    def op_inplace_meta(self, op):
        m = self.model
        if op["what"] == "compartments" or op["kind"] == "model":
            if op["what"] == "compartments":
                m.compartments = {"c": op["val"]}
            elif op["what"] == "name":
                m.name = op["val"]
            elif op["what"] == "ann_list":
                lists = [v for v in m.annotation.values() if isinstance(v, list)]
                if not lists:
                    m.annotation["listed"] = [op["val"]]
                else:
                    lists[0].append(op["val"])
            else:
                getattr(m, op["what"])[op["key"]] = op["val"]
            return "ok"
        dl = {"r": m.reactions, "m": m.metabolites, "g": m.genes, "grp": m.groups}[op["kind"]]
        if not len(dl):
            return "skipped:empty"
        x = self.pick(dl, op["sel"])
        if op["what"] == "name":
            x.name = op["val"]
        elif op["what"] == "ann_list":
            # edit a nested list value in place (annotations map a provider to an id or a list of ids)
            lists = [v for v in x.annotation.values() if isinstance(v, list)]
            if not lists:
                x.annotation["listed"] = [op["val"]]
            else:
                lists[0].append(op["val"])
        else:
            getattr(x, op["what"])[op["key"]] = op["val"]

    def op_tolerance(self, op):
        self.model.tolerance = op["value"]

    def op_helper(self, op):
        """Analysis helpers documented to integrate with the context; only run inside a context (they are meant
        to be temporary) - outside they would make the solver content opaque to the C01 audit."""
        from cobra.util import solver as su

        m = self.model
        if not self.depth():
            return "skipped:outside-context"
        which = op["which"]
        if which == "add_loopless" and any(v.name.startswith("indicator_") for v in m.variables):
            return "skipped:already-loopless"  # applying the formulation twice is not a meaningful call
        if which in ("add_loopless", "add_room") and any(abs(b) == float("inf") for r in m.reactions for b in r.bounds):
            return "skipped:infinite-bound-big-M"  # the bounds are the big-M constants of these formulations
        if which == "fix_objective":
            su.fix_objective_as_constraint(m, fraction=op["frac"])
        elif which == "add_pfba":
            from cobra.flux_analysis.parsimonious import add_pfba

            add_pfba(m, fraction_of_optimum=op["frac"])
        elif which == "add_moma":
            from cobra.flux_analysis.moma import add_moma

            add_moma(m, linear=True)
        elif which == "add_room":
            from cobra.flux_analysis.room import add_room

            add_room(m, linear=True)
        elif which == "add_loopless":
            from cobra.flux_analysis.loopless import add_loopless

            add_loopless(m)
        elif which == "add_lp_feasibility":
            su.add_lp_feasibility(m)
        else:
            if not len(m.reactions):
                return "skipped:empty"
            r = self.pick(m.reactions, op["rxn"])
            if "abs_var" in m.variables:
                return "skipped:exists"
            su.add_absolute_expression(m, r.flux_expression, name="abs_var")
        self.user["opaque"] = True  # helper content is not tracked item by item; C01 skips the leftover audit inside

    def op_merge(self, op):
        from cobra import Model

        right = Model("right")
        saved = self.model
        self.model = right  # build the right-hand reactions against the right model's metabolites
        try:
            rx = [self._make_rxn({**d, "met_mode": "fresh"}) for d in op["rxns"]]
        finally:
            self.model = saved
        right.add_reactions(rx)
        if len(right.reactions):
            right.objective = right.reactions[0]
        inplace = op["inplace"] or bool(self.depth())
        new = self.model.merge(right, prefix_existing=op["prefix"], inplace=inplace, objective=op["objective"])
        if not inplace:
            self.on_copy(self.model, new, "merge")
        return "ok"


def replay(world: World, ops: List[Dict[str, Any]], after_step=None):
    for op in ops:
        clean = {k: v for k, v in op.items() if not k.startswith("_")}
        out = world.apply(clean)
        if after_step:
            after_step(world, clean, out)


# ------------------------------------------------------------------------------------------
# small-scope enumeration: all ordered pairs of concrete op instances
# ------------------------------------------------------------------------------------------
def concrete_instances(seed: int, names: List[str], per_name: int = 3):
    """Deterministic concrete instances of every op (drawn once from the strategies with a fixed seed)."""
    import hypothesis
    from hypothesis import HealthCheck, given, settings

    out: Dict[str, List[Dict[str, Any]]] = {}

    for name in names:
        got: List[Dict[str, Any]] = []

        @hypothesis.seed(seed * 7919 + sum(map(ord, name)))
        @settings(max_examples=per_name * 4, database=None, deadline=None, suppress_health_check=list(HealthCheck),
                  phases=[hypothesis.Phase.generate])
        @given(OPS[name])
        def grab(op):
            if len(got) < per_name and op not in got:
                got.append(op)

        grab()
        out[name] = got
    return out


def pair_cases(seed: int, specs_list: List[Dict[str, Any]], names: List[str], in_block: bool, per_name: int = 3, prefix=(),
               prefixes=None, length: int = 2):
    """All ordered tuples (pairs by default) of concrete op instances, on every given model spec and after every given
    prefix; inside one block (C03) or as a plain history (C01). A prefix is a list of ops that run first (e.g. an add_cons
    so that user constraints exist, or removals so that there are detached reaction objects to add again)."""
    import itertools

    inst = concrete_instances(seed, names, per_name)
    flat = [op for n in names for op in inst[n]] + [op for op in EXTRA_INSTANCES if op["op"] in names]
    for spec in specs_list:
        for pre in (prefixes if prefixes is not None else [list(prefix)]):
            for combo in itertools.product(flat, repeat=length):
                if in_block:
                    yield {"spec": spec, "path": "bulk", "ops": [*pre, {"op": "block", "ops": list(combo), "fault": None, "propagate": False}]}
                else:
                    yield {"spec": spec, "path": "bulk", "ops": [*pre, *combo]}


# instances that the enumerations always contain besides the drawn ones: operations that must fail and change nothing
# (identifier taken by a user variable of the first prefix, identifier the solver layer rejects, a name that exists)
EXTRA_INSTANCES = [
    {"op": "rename_rxn", "rxn": 0, "new": RID.index("uvar0")},
    {"op": "rename_rxn", "rxn": 1, "new": RID.index("R 1")},
    {"op": "rename_met", "met": 0, "new": MID.index("M 1")},
    {"op": "add_reactions", "rxns": [{"b": [0, 1000], "id": RID.index("uvar0"), "met_mode": "model", "mets": [], "rule": None}], "own": False},
    {"op": "add_var", "name": 0, "b": (0, 5), "kind": "continuous"},
    {"op": "add_metabolites", "mets": [MID.index("M 1")], "single": False, "own": False},
]

# prefixes for the enumerations: user rows/columns exist; detached reaction objects exist (one with a rule whose gene stays
# in the model, one removed together with its orphaned gene)
ENUM_PREFIXES = [
    [{"op": "add_cons", "name": 0, "rxns": [1], "coefs": [1, 1], "b": (None, 5)}, {"op": "add_var", "name": 0, "b": (0, 10), "kind": "continuous"}],
    [{"op": "remove_reactions", "by": "obj", "orphans": False, "sels": [1], "single": False, "via": "model"},
     {"op": "remove_reactions", "by": "obj", "orphans": True, "sels": [2], "single": False, "via": "model"},
     {"op": "add_var", "name": 0, "b": (0, 10), "kind": "continuous"}],
]
