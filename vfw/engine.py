"""Engine: seeding, sharding, journals, bucketing, known findings, evidence, exit codes.

Exit codes of a check: 0 = property held on everything explored (KNOWN-FINDING lines allowed),
1 = at least one VIOLATION line printed, 2 = harness error (never a VIOLATION).

A property module (vfw/props/cNN.py) exposes

    PROPERTY_ID, RULE, ASSUMPTIONS
    phases(tier) -> list[Phase]
    CHECKS = {"name": check_case_function}          # used by --replay and by findings replays

A Phase runs in `shards` fresh subprocesses (python -m vfw.shard ...); its function receives a
ShardCtx and drives it with run_hypothesis()/run_enumeration().
A check function has the signature check(case, ctx) -> info dict
    {"nontrivial": bool, "classes": [str, ...]}     (both optional)
and raises PropertyViolation(bucket, message) when the property is broken on `case`.
`case` is pure JSON-able data and is the replay format.
"""
from __future__ import annotations

import hashlib
import importlib
import json
import os
import shutil
import subprocess
import sys
import tempfile
import time
import traceback
from collections import Counter
from dataclasses import dataclass, field
from typing import Any, Callable, Dict, List, Optional

ROOT = os.path.dirname(os.path.dirname(os.path.abspath(__file__)))
KNOWN_FILE = os.path.join(ROOT, "KNOWN_FINDINGS.txt")
REPO_SRC = os.environ.get("VERIF_REPO", "/repo/src")


class PropertyViolation(Exception):
    """The property under test does not hold for the current case."""

    def __init__(self, bucket: str, message: str, detail: Any = None):
        super().__init__(f"[{bucket}] {message}")
        self.bucket = bucket
        self.message = message
        self.detail = detail


class HarnessError(Exception):
    """Something in the machinery (generator, oracle, reference) is wrong."""


@dataclass
class Phase:
    name: str
    fn: Callable[["ShardCtx"], None]
    shards: int = 1
    params: Dict[str, Any] = field(default_factory=dict)
    parallel: Optional[int] = None  # max shards of this phase alive at once


def canon(case: Any) -> str:
    return json.dumps(case, sort_keys=True, separators=(",", ":"), default=_json_default)


def _json_default(o):
    from fractions import Fraction

    if isinstance(o, Fraction):
        return {"__frac__": [o.numerator, o.denominator]}
    if isinstance(o, (set, frozenset)):
        return sorted(o, key=repr)
    if isinstance(o, tuple):
        return list(o)
    if isinstance(o, float):
        return repr(o)
    try:
        import numpy as np

        if isinstance(o, np.generic):
            return o.item()
    except Exception:  # pragma: no cover
        pass
    return repr(o)


def case_hash(case: Any) -> str:
    return hashlib.blake2b(canon(case).encode(), digest_size=8).hexdigest()


def abbreviate(obj: Any, limit: int = 1500) -> Any:
    s = canon(obj)
    if len(s) <= limit:
        return json.loads(s)
    return {"abbreviated_json": s[:limit] + "...", "full_length": len(s)}


# ------------------------------------------------------------------------------------------
# known findings
# ------------------------------------------------------------------------------------------
@dataclass
class FindingEntry:
    kind: str  # "known" | "fixed"
    property_id: str
    sig: str
    repro: Optional[str]
    commit: Optional[str]
    text: str
    check: Optional[str] = None


def load_known_findings(path: str = KNOWN_FILE) -> List[FindingEntry]:
    out: List[FindingEntry] = []
    if not os.path.exists(path):
        return out
    for raw in open(path, encoding="utf-8"):
        line = raw.strip()
        if not line or line.startswith("#"):
            continue
        kind, _, rest = line.partition(":")
        kind = kind.strip()
        if kind not in ("known", "fixed"):
            raise HarnessError(f"bad line in {path}: {line!r}")
        toks = rest.split()
        kv, text, commit = {}, [], None
        for i, t in enumerate(toks):
            if "=" in t and t.split("=", 1)[0] in ("property", "sig", "repro", "check") and not text:
                k, v = t.split("=", 1)
                kv[k] = v
            elif kind == "fixed" and commit is None and not text and "=" not in t:
                commit = t
            else:
                text.append(t)
        if "property" not in kv or "sig" not in kv:
            raise HarnessError(f"bad line in {path}: {line!r}")
        out.append(
            FindingEntry(kind, kv["property"], kv["sig"], kv.get("repro"), commit, " ".join(text), kv.get("check"))
        )
    return out


# ------------------------------------------------------------------------------------------
# shard side
# ------------------------------------------------------------------------------------------
class ShardCtx:
    """State of one shard; handed to phase functions and to check functions."""

    def __init__(self, prop: str, tier: str, seed: int, shard: int, n_shards: int, phase: str,
                 params: Dict[str, Any], known: List[str], budget_s: float):
        self.prop, self.tier, self.seed = prop, tier, seed
        self.shard, self.n_shards, self.phase, self.params = shard, n_shards, phase, params
        self.known = frozenset(known)  # signature names of known: entries for this property
        self.evaluations = 0
        self.skipped_over_budget = 0
        self.nontrivial = set()
        self.classes = Counter()
        self.excluded = Counter()  # cases / relations steered around a known finding
        self.undetermined = 0
        self.samples: List[Any] = []
        self.failures: Dict[str, Dict[str, Any]] = {}
        self.suppressed = Counter()
        self.notes: List[str] = []
        self.t0 = time.time()
        self.budget_s = budget_s
        self.hyp_runs = 0
        self._journal: Dict[str, Dict[str, Any]] = {}
        self.exhaustive = None
        self.current_path: Optional[str] = None  # where the running case is journalled (crash recovery)

    # -- helpers usable from check functions ------------------------------------------------
    def derived_seed(self, extra: int = 0) -> int:
        return (self.seed * 1_000_003 + self.shard * 1009 + extra) % (2**63)

    def over_budget(self) -> bool:
        return (time.time() - self.t0) > self.budget_s

    def excluded_by(self, sig: str, n: int = 1) -> None:
        self.excluded[sig] += n

    # -- case execution ---------------------------------------------------------------------
    def _record(self, case, info, check_name):
        info = info or {}
        for c in info.get("classes", ()):
            self.classes[c] += 1
        self.undetermined += int(info.get("undetermined", 0))
        if info.get("nontrivial"):
            h = case_hash(case)
            if h not in self.nontrivial:
                self.nontrivial.add(h)
                if len(self.samples) < 3:
                    self.samples.append({"check": check_name, "case": abbreviate(case)})

    def run_case(self, case, check, check_name: str, suppressed=frozenset()):
        """Run one case. Returns normally or raises PropertyViolation (journalled)."""
        self.evaluations += 1
        if self.current_path and self.params.get("crash_journal"):
            with open(self.current_path, "w") as fh:
                fh.write(canon({"check": check_name, "case": case}))
        try:
            try:
                info = check(case, self)
            except (PropertyViolation, HarnessError, KeyboardInterrupt):
                raise
            except Exception as e:  # noqa: BLE001
                # An exception that left the library under test through a call the check expected to succeed (the check
                # handles every documented refusal itself) is the library raising where success is documented: a violation,
                # named after the innermost library frame. Anything raised by harness code stays a harness error.
                where = _raised_inside_sut(e)
                if where is None:
                    raise
                raise PropertyViolation(f"unexpected-exception:{type(e).__name__}:{where}",
                                        f"{type(e).__name__}: {str(e)[:200]} raised inside cobra ({where}) by a call that is documented to succeed") from e
        except PropertyViolation as v:
            entry = {"bucket": v.bucket, "message": v.message, "check": check_name, "case": case,
                     "detail": v.detail, "size": len(canon(case))}
            self._journal[v.bucket] = entry  # last one seen per bucket (= Hypothesis' final replay)
            best = self.failures.get(v.bucket)
            if v.bucket in suppressed:
                self.suppressed[v.bucket] += 1
                return
            if best is None or entry["size"] <= best["size"]:
                self.failures[v.bucket] = entry
            raise
        self._record(case, info, check_name)

    def run_hypothesis(self, strategy, check, check_name: str, max_examples: int,
                       max_rounds: int = 4, shrink: bool = True, seed_extra: int = 0):
        """Run a Hypothesis search; after a (shrunk) failure, suppress its bucket and search again
        so that several root causes surface in one run."""
        import hypothesis
        from hypothesis import HealthCheck, Phase as HPhase, given, settings

        suppressed = set()
        for rnd in range(max_rounds):
            if self.over_budget():
                self.notes.append(f"{check_name}: budget exhausted before round {rnd}")
                break
            self.hyp_runs += 1
            phases = [HPhase.explicit, HPhase.generate, HPhase.target]
            if shrink:
                phases.append(HPhase.shrink)
            st = settings(
                max_examples=max_examples,
                database=None,
                derandomize=False,
                deadline=None,
                report_multiple_bugs=False,
                print_blob=False,
                suppress_health_check=list(HealthCheck),
                phases=phases,
            )
            frozen = frozenset(suppressed)
            ctx = self

            def body(case):
                if ctx.over_budget():
                    # Hypothesis re-raises KeyboardInterrupt at once: the only clean way to stop generation and
                    # shrinking from inside; failures journalled so far are kept (smallest seen per bucket).
                    ctx._stopped = True
                    raise KeyboardInterrupt
                ctx.run_case(case, check, check_name, frozen)

            test = hypothesis.seed(self.derived_seed(seed_extra + rnd * 7919))(st(given(strategy)(body)))
            self._stopped = False
            try:
                test()
            except KeyboardInterrupt:
                if not self._stopped:
                    raise
                self.notes.append(f"{check_name}: budget exhausted in round {rnd} after {self.evaluations} evaluations")
                break
            except hypothesis.errors.Flaky:
                # A case violated the property once and passed (or failed differently) when Hypothesis ran the very same
                # case again: the code under test is not a function of its inputs there (wall clock, leaked state). The
                # violation was observed against the real code by the same oracle and is journalled; it is reported with
                # that remark instead of being turned into a harness error.
                new = [b for b in self.failures if b not in suppressed]
                for b in new:
                    e = self.failures[b]
                    if not e.get("flaky"):
                        e["flaky"] = True
                        e["message"] += " [the same case did not fail the same way when it was run again: behaviour depends on something other than the inputs]"
                    suppressed.add(b)
                if not new:
                    raise
                continue
            except PropertyViolation as v:
                # the exception Hypothesis re-raises comes from its final replay of the minimal case
                last = self._journal.get(v.bucket)
                if last is not None:
                    self.failures[v.bucket] = last
                suppressed.add(v.bucket)
                continue
            break

    def run_enumeration(self, cases, check, check_name: str):
        """Exhaustive / scripted loop: every case is run, failures are bucketed, nothing stops early."""
        for case in cases:
            if self.over_budget():
                self.notes.append(f"{check_name}: budget exhausted, enumeration incomplete")
                self.exhaustive = False
                return False
            try:
                self.run_case(case, check, check_name)
            except PropertyViolation:
                pass
        return True

    def result(self) -> Dict[str, Any]:
        return {
            "phase": self.phase,
            "shard": self.shard,
            "evaluations": self.evaluations,
            "skipped_over_budget": self.skipped_over_budget,
            "nontrivial": sorted(self.nontrivial),
            "classes": dict(self.classes),
            "excluded": dict(self.excluded),
            "undetermined": self.undetermined,
            "samples": self.samples,
            "failures": list(self.failures.values()),
            "suppressed": dict(self.suppressed),
            "notes": self.notes,
            "hyp_runs": self.hyp_runs,
            "wall_s": round(time.time() - self.t0, 3),
            "exhaustive": self.exhaustive,
        }


def _raised_inside_sut(exc) -> Optional[str]:
    """'module.function' of the innermost cobra frame if the traceback ends inside the library under test (or in a
    dependency it called) below the last harness frame, else None."""
    frames = traceback.extract_tb(exc.__traceback__)
    harness = os.path.join(ROOT, "vfw")
    last_harness = max((i for i, f in enumerate(frames) if f.filename.startswith(harness)), default=-1)
    sut = [f for f in frames[last_harness + 1:] if os.path.abspath(f.filename).startswith(os.path.abspath(REPO_SRC))]
    if not sut:
        return None
    f = sut[-1]
    return f"{os.path.splitext(os.path.basename(f.filename))[0]}.{f.name}"


def load_module(prop: str):
    return importlib.import_module(f"vfw.props.{prop.lower()}")


def ensure_sut():
    """Import cobra from the working tree under test and make sure it is that tree."""
    if REPO_SRC not in sys.path:
        sys.path.insert(0, REPO_SRC)
    import cobra

    if not os.path.abspath(cobra.__file__).startswith(os.path.abspath(REPO_SRC)):
        raise HarnessError(f"cobra imported from {cobra.__file__}, expected under {REPO_SRC}")
    import logging
    import warnings

    logging.disable(logging.CRITICAL)
    warnings.simplefilter("ignore")
    return cobra


def shard_main(argv: List[str]) -> int:
    spec = json.loads(argv[0])
    out = spec["out"]
    res: Dict[str, Any]
    try:
        mod = load_module(spec["prop"])  # property modules import cobra lazily
        if "replay" not in spec:
            ph = [p for p in mod.phases(spec["tier"]) if p.name == spec["phase"]][0]
            if ph.params.get("instrument"):
                # coverage-guided phase: the modules under test must be imported under atheris' import hook
                from vfw import fuzz

                if fuzz.available():
                    import atheris

                    if REPO_SRC not in sys.path:
                        sys.path.insert(0, REPO_SRC)
                    with atheris.instrument_imports(include=list(ph.params["instrument"])):
                        import cobra  # noqa: F401
        ensure_sut()
        if "replay" in spec:
            data = json.load(open(spec["replay"]["path"]))
            v = replay_entry(mod, spec["replay"]["check"] or data.get("check"), data["case"], known=())
            res = {"harness_error": None, "reproduced": v is not None, "bucket": v.bucket if v else None,
                   "message": v.message if v else None, "detail": v.detail if v else None}
            with open(out, "w") as fh:
                fh.write(canon(res))
            return 0
        phase = [p for p in mod.phases(spec["tier"]) if p.name == spec["phase"]][0]
        ctx = ShardCtx(spec["prop"], spec["tier"], spec["seed"], spec["shard"], phase.shards, phase.name,
                       phase.params, spec["known"], spec["budget_s"])
        ctx.current_path = out + ".current"
        phase.fn(ctx)
        res = ctx.result()
        res["harness_error"] = None
    except BaseException as e:  # noqa: BLE001 - everything unexpected is a harness error
        res = {"phase": spec.get("phase"), "shard": spec.get("shard"), "harness_error": "".join(
            traceback.format_exception(type(e), e, e.__traceback__))[-6000:]}
    with open(out, "w") as fh:
        fh.write(canon(res))
    return 0


# ------------------------------------------------------------------------------------------
# parent side
# ------------------------------------------------------------------------------------------
def _spawn(spec: Dict[str, Any]) -> subprocess.Popen:
    env = dict(os.environ)
    env["PYTHONHASHSEED"] = "0"
    env["PYTHONPATH"] = ROOT + os.pathsep + env.get("PYTHONPATH", "")
    env.setdefault("OMP_NUM_THREADS", "1")
    env.setdefault("OPENBLAS_NUM_THREADS", "1")
    err = open(spec["out"] + ".stderr", "wb")
    cmd = [sys.executable, "-m", "vfw.shard", json.dumps(spec)]
    cov = os.environ.get("VFW_COVERAGE_DIR")  # development aid (tools/coverage_report.sh): which cobra lines a tier reaches
    if cov:
        env.setdefault("COVERAGE_CORE", "sysmon")
        cmd = [sys.executable, "-m", "coverage", "run", "-p", f"--data-file={cov}/.coverage",
               "--include=*/src/cobra/*", "-m", "vfw.shard", json.dumps(spec)]
    return subprocess.Popen(cmd, cwd=ROOT, env=env, stdout=err, stderr=err)


def replay_entry(mod, check_name: Optional[str], case, known=()):
    """Run a stored case through its check with the given known-exclusions active.
    Returns None if it passes, else the PropertyViolation."""
    checks = mod.CHECKS
    if check_name and ":" in check_name:  # "C02:edits" - the reproducer is a case of another property's check
        other, check_name = check_name.split(":", 1)
        checks = load_module(other).CHECKS
    fn = checks[check_name] if check_name else next(iter(checks.values()))
    ctx = ShardCtx(mod.PROPERTY_ID, "quick", 0, 0, 1, "replay", {}, list(known), 1e9)
    try:
        fn(case, ctx)
    except PropertyViolation as v:
        return v
    return None


def run_check(prop: str, tier: str, seed: int) -> int:
    t0 = time.time()
    prop = prop.upper()
    ensure_sut()
    mod = load_module(prop)
    entries = [e for e in load_known_findings() if e.property_id == prop]
    known_sigs = [e.sig for e in entries if e.kind == "known"]
    violations: List[Dict[str, Any]] = []
    known_lines: List[str] = []
    replays = []

    # 1. replay the committed reproducers (full check, no exclusions), each in its own process: a reproducer may
    #    abort the interpreter
    rtmp = tempfile.mkdtemp(prefix=f"vfw-{prop}-replay-")
    procs = []
    try:
        for k, e in enumerate(entries):
            if not e.repro:
                continue
            out = os.path.join(rtmp, f"replay-{k}.json")
            spec = {"prop": prop, "tier": tier, "seed": seed, "out": out,
                    "replay": {"path": os.path.join(ROOT, e.repro), "check": e.check}}
            procs.append((e, out, _spawn(spec)))
        for e, out, p in procs:
            rc = p.wait()
            data = json.load(open(os.path.join(ROOT, e.repro)))
            if os.path.exists(out):
                r = json.load(open(out))
                if r.get("harness_error"):
                    raise HarnessError(f"replay of {e.repro} failed: {r['harness_error'][-1500:]}")
                reproduced, bucket, message, detail = r["reproduced"], r["bucket"], r["message"], r["detail"]
            elif rc is not None and rc < 0:
                tail = open(out + ".stderr", "rb").read()[-200:].decode("utf-8", "replace")
                reproduced, bucket, message, detail = True, f"process-crash:signal{-rc}", f"the process died with signal {-rc}: {tail}", None
            else:
                raise HarnessError(f"replay of {e.repro} produced no result (rc={rc})")
            if e.kind == "known":
                if reproduced:
                    known_lines.append(f"KNOWN-FINDING: property={prop} sig={e.sig} {e.text}")
                else:
                    print(f"NOTE: known finding sig={e.sig} no longer reproduces from {e.repro}")
                replays.append({"sig": e.sig, "kind": "known", "reproduced": reproduced, "bucket": bucket})
            else:
                if reproduced:
                    violations.append({"bucket": f"regression-{e.sig}", "message": f"fixed finding is back: {message}",
                                       "check": e.check or data.get("check"), "case": data["case"], "detail": detail})
                replays.append({"sig": e.sig, "kind": "fixed", "reproduced": reproduced})
    finally:
        shutil.rmtree(rtmp, ignore_errors=True)

    # 2. generated search
    tmp = tempfile.mkdtemp(prefix=f"vfw-{prop}-")
    results: List[Dict[str, Any]] = []
    harness_errors: List[str] = []
    crashes: List[Dict[str, Any]] = []
    inconclusive: List[str] = []
    try:
        max_par = int(os.environ.get("VERIF_JOBS", "16" if tier == "thorough" else "8"))
        for phase in mod.phases(tier):
            budget = float(phase.params.get("budget_s", 75 if tier == "quick" else 540))
            pending = list(range(phase.shards))
            running: List[tuple] = []
            par = min(max_par, phase.parallel or max_par)
            while pending or running:
                while pending and len(running) < par:
                    k = pending.pop(0)
                    out = os.path.join(tmp, f"{phase.name}-{k}.json")
                    spec = {"prop": prop, "tier": tier, "seed": seed, "shard": k, "phase": phase.name,
                            "known": known_sigs, "budget_s": budget, "out": out}
                    running.append((k, out, _spawn(spec), time.time()))
                time.sleep(0.05)
                still = []
                for k, out, p, ts in running:
                    rc = p.poll()
                    if rc is None:
                        if time.time() - ts > budget * 2 + 600:
                            p.kill()
                            harness_errors.append(f"{phase.name}[{k}] killed: exceeded twice its budget")
                        else:
                            still.append((k, out, p, ts))
                        continue
                    if not os.path.exists(out):
                        tail = ""
                        try:
                            tail = open(out + ".stderr", "rb").read()[-800:].decode("utf-8", "replace")
                        except OSError:
                            pass
                        jpath = out + ".current"
                        if rc is not None and rc < 0 and os.path.exists(jpath):
                            # the SUT killed the interpreter (abort / segfault) while running this case
                            cur = json.load(open(jpath))
                            entry = {"bucket": f"process-crash:signal{-rc}", "check": cur["check"], "case": cur["case"],
                                     "message": f"the process died with signal {-rc} while running this case: {tail[-300:]}",
                                     "detail": None, "size": len(canon(cur["case"]))}
                            if phase.params.get("crash_is_violation"):
                                crashes.append(entry)
                            else:
                                # an abort inside the solver library on a case whose property verdict is about model
                                # state: inconclusive for this property, kept for inspection, never a VIOLATION
                                os.makedirs(os.path.join(ROOT, "out"), exist_ok=True)
                                cpath = os.path.join("out", f"{prop}-inconclusive-crash-seed{seed}-{phase.name}{k}.json")
                                with open(os.path.join(ROOT, cpath), "w") as fh:
                                    json.dump({"property": prop, **{kk: entry[kk] for kk in ("check", "bucket", "message")},
                                               "case": json.loads(canon(entry["case"]))}, fh, indent=1)
                                inconclusive.append(f"{phase.name}[{k}] signal {-rc}: {tail[-160:].strip()} (case saved to {cpath})")
                        else:
                            harness_errors.append(f"{phase.name}[{k}] died without result (rc={rc}): {tail}")
                        continue
                    r = json.load(open(out))
                    if r.get("harness_error"):
                        harness_errors.append(f"{phase.name}[{k}]: {r['harness_error']}")
                    else:
                        results.append(r)
                running = still
    finally:
        shutil.rmtree(tmp, ignore_errors=True)

    # 3. aggregate
    evaluations = sum(r["evaluations"] for r in results)
    nontrivial = set()
    classes, excluded, suppressed = Counter(), Counter(), Counter()
    samples, notes = [], []
    per_phase: Dict[str, Dict[str, Any]] = {}
    best: Dict[str, Dict[str, Any]] = {}
    for r in results:
        nontrivial.update(r["nontrivial"])
        classes.update(r["classes"])
        excluded.update(r["excluded"])
        suppressed.update(r["suppressed"])
        notes.extend(r["notes"])
        for s in r["samples"]:
            if len(samples) < 6:
                samples.append(s)
        pp = per_phase.setdefault(r["phase"], {"shards": 0, "evaluations": 0, "wall_s_max": 0.0,
                                               "skipped_over_budget": 0, "exhaustive": None})
        pp["shards"] += 1
        pp["evaluations"] += r["evaluations"]
        pp["skipped_over_budget"] += r["skipped_over_budget"]
        pp["wall_s_max"] = max(pp["wall_s_max"], r["wall_s"])
        if r.get("exhaustive") is not None:
            pp["exhaustive"] = bool(r["exhaustive"]) and pp["exhaustive"] is not False
        for f in r["failures"]:
            cur = best.get(f["bucket"])
            if cur is None or f["size"] < cur["size"]:
                best[f["bucket"]] = f
    for c in crashes:
        cur = best.get(c["bucket"])
        if cur is None or c["size"] < cur["size"]:
            best[c["bucket"]] = c
    violations.extend(best.values())

    os.makedirs(os.path.join(ROOT, "out"), exist_ok=True)
    vio_lines = []
    for v in violations:
        name = f"{prop}-{_slug(v['bucket'])}-seed{seed}.json"
        path = os.path.join("out", name)
        with open(os.path.join(ROOT, path), "w") as fh:
            json.dump({"property": prop, "check": v.get("check"), "bucket": v["bucket"], "message": v["message"],
                       "detail": json.loads(canon(v.get("detail"))), "case": json.loads(canon(v["case"]))}, fh, indent=1)
        vio_lines.append(f"VIOLATION property={prop} replay={path} bucket={v['bucket']} :: {v['message'][:300]}")

    wall = time.time() - t0
    evidence = {
        "property_id": prop,
        "tier": tier,
        "seed": seed,
        "level": "exploration",
        "coverage": {
            "evaluations": evaluations,
            "distinct_nontrivial": len(nontrivial),
            "rule": mod.RULE,
            "samples": samples,
            "classes": dict(sorted(classes.items())),
            "excluded_by_known_finding": dict(excluded),
            "undetermined_in_dead_band": sum(r.get("undetermined", 0) for r in results),
            "phases": per_phase,
            "replayed_findings": replays,
            "violation_buckets": sorted(v["bucket"] for v in violations),
            "suppressed_after_first_report": dict(suppressed),
            "notes": notes[:20],
            "harness_errors": harness_errors[:5],
            "inconclusive_solver_crashes": inconclusive[:10],
            "engine": _versions(),
        },
        "assumptions": list(mod.ASSUMPTIONS),
        "wall_s": round(wall, 2),
        "violations": len(violations),
    }
    if all(p.get("exhaustive") for p in per_phase.values()) and per_phase:
        evidence["coverage"]["exhaustive"] = True
    os.makedirs(os.path.join(ROOT, "evidence"), exist_ok=True)
    if not harness_errors or results:
        with open(os.path.join(ROOT, "evidence", f"{prop}.json"), "w") as fh:
            json.dump(evidence, fh, indent=1, sort_keys=True)

    for line in inconclusive:
        print("NOTE: inconclusive (solver library aborted the process):", line)
    for line in known_lines:
        print(line)
    for line in vio_lines:
        print(line)
    print(f"{prop} tier={tier} seed={seed}: evaluations={evaluations} distinct_nontrivial={len(nontrivial)} "
          f"violations={len(violations)} known={len(known_lines)} wall={wall:.1f}s")
    if harness_errors:
        for h in harness_errors[:3]:
            print("HARNESS-ERROR", h[-3000:])
        return 1 if violations else 2
    return 1 if violations else 0


def _slug(s: str) -> str:
    return "".join(c if c.isalnum() or c in "-_" else "_" for c in s)[:60]


def _versions() -> Dict[str, str]:
    import hypothesis

    v = {"hypothesis": hypothesis.__version__, "python": sys.version.split()[0]}
    try:
        import cobra
        import optlang

        v["cobra"] = cobra.__version__
        v["optlang"] = optlang.__version__
    except Exception:  # pragma: no cover
        pass
    return v


def run_replay(prop: str, path: str) -> int:
    """Replay one case file in its own process (a reproducer may abort the interpreter)."""
    prop = prop.upper()
    path = os.path.abspath(path)
    tmp = tempfile.mkdtemp(prefix=f"vfw-{prop}-replay-")
    try:
        out = os.path.join(tmp, "replay.json")
        p = _spawn({"prop": prop, "tier": "quick", "seed": 0, "out": out, "replay": {"path": path, "check": None}})
        rc = p.wait()
        if os.path.exists(out):
            r = json.load(open(out))
            if r.get("harness_error"):
                print("HARNESS-ERROR", r["harness_error"][-3000:])
                return 2
            if not r["reproduced"]:
                print(f"{prop} replay {path}: property holds on this case")
                return 0
            print(f"VIOLATION property={prop} replay={path} bucket={r['bucket']} :: {str(r['message'])[:500]}")
            return 1
        if rc is not None and rc < 0:
            tail = open(out + ".stderr", "rb").read()[-300:].decode("utf-8", "replace")
            print(f"VIOLATION property={prop} replay={path} bucket=process-crash:signal{-rc} :: the process died with signal {-rc}: {tail}")
            return 1
        print(f"HARNESS-ERROR replay produced no result (rc={rc})")
        return 2
    finally:
        shutil.rmtree(tmp, ignore_errors=True)
