"""Exact rational LP solver (two-phase tableau simplex, Bland's rule) with verified certificates.

Pure standard library.  Every verdict is checked in exact arithmetic before it is returned:
    optimal    : primal feasible, dual feasible, equal objective values
    infeasible : Farkas vector
    unbounded  : feasible point + improving recession ray
A certificate that does not verify raises OracleError (a harness error, never a property verdict).
"""
from __future__ import annotations

from fractions import Fraction as F
from typing import Dict, List, Optional, Sequence, Tuple

Num = Optional[F]  # None = infinite


class OracleError(Exception):
    pass


def frac(x) -> Num:
    """Exact conversion; +-inf and None -> None."""
    if x is None:
        return None
    if isinstance(x, F):
        return x
    if isinstance(x, int):
        return F(x)
    if isinstance(x, float):
        if x != x:
            raise OracleError("nan in LP data")
        if x in (float("inf"), float("-inf")):
            return None
        return F(x)
    if isinstance(x, (list, tuple)) and len(x) == 2:
        return F(x[0], x[1])
    return F(x)


class Result:
    __slots__ = ("status", "value", "x", "farkas", "ray")

    def __init__(self, status, value=None, x=None, farkas=None, ray=None):
        self.status, self.value, self.x, self.farkas, self.ray = status, value, x, farkas, ray

    def __repr__(self):
        return f"Result({self.status}, value={self.value}, x={self.x})"


class LP:
    """min / max  c.x   s.t.  lo_i <= a_i.x <= hi_i,  lb_j <= x_j <= ub_j  (None = infinite)."""

    def __init__(self, n: int):
        self.n = n
        self.lb: List[Num] = [F(0)] * n
        self.ub: List[Num] = [None] * n
        self.rows: List[Tuple[Dict[int, F], Num, Num]] = []

    def set_bounds(self, j: int, lb, ub):
        self.lb[j], self.ub[j] = frac(lb) if lb is not None else None, frac(ub) if ub is not None else None
        if isinstance(lb, float) and lb == float("-inf"):
            self.lb[j] = None

    def add_row(self, coefs: Dict[int, object], lo, hi):
        self.rows.append(({j: frac(v) for j, v in coefs.items() if frac(v) != 0}, frac(lo), frac(hi)))

    def copy(self) -> "LP":
        o = LP(self.n)
        o.lb, o.ub = list(self.lb), list(self.ub)
        o.rows = [(dict(a), lo, hi) for a, lo, hi in self.rows]
        return o

    # ---------------------------------------------------------------------------------------
    def _standard_form(self):
        """x_j = const_j + sum_k M[j][k] z_k,  A z = b, z >= 0."""
        n = self.n
        nz = 0
        xmap: List[Tuple[F, Dict[int, F]]] = []
        A: List[Dict[int, F]] = []
        b: List[F] = []
        for j in range(n):
            lb, ub = self.lb[j], self.ub[j]
            if lb is not None and ub is not None and lb > ub:
                return None  # trivially infeasible
            if lb is not None:
                k = nz
                nz += 1
                xmap.append((lb, {k: F(1)}))
                if ub is not None:
                    s = nz
                    nz += 1
                    A.append({k: F(1), s: F(1)})
                    b.append(ub - lb)
            elif ub is not None:
                k = nz
                nz += 1
                xmap.append((ub, {k: F(-1)}))
            else:
                k = nz
                nz += 2
                xmap.append((F(0), {k: F(1), k + 1: F(-1)}))
        for coefs, lo, hi in self.rows:
            if lo is not None and hi is not None and lo > hi:
                return None
            const = F(0)
            alpha: Dict[int, F] = {}
            for j, a in coefs.items():
                c0, m = xmap[j]
                const += a * c0
                for k, v in m.items():
                    alpha[k] = alpha.get(k, F(0)) + a * v
            alpha = {k: v for k, v in alpha.items() if v != 0}
            if lo is not None and hi is not None and lo == hi:
                A.append(dict(alpha))
                b.append(lo - const)
            else:
                if lo is not None:
                    r = dict(alpha)
                    r[nz] = F(-1)
                    nz += 1
                    A.append(r)
                    b.append(lo - const)
                if hi is not None:
                    r = dict(alpha)
                    r[nz] = F(1)
                    nz += 1
                    A.append(r)
                    b.append(hi - const)
        return xmap, A, b, nz

    def solve(self, c: Dict[int, object], sense: str = "max") -> Result:
        return Solver(self).solve(c, sense)


class Solver:
    """Phase 1 is run once; several objectives can then be optimised from the feasible tableau."""

    def __init__(self, lp: LP):
        self.lp = lp
        sf = lp._standard_form()
        self.trivially_infeasible = sf is None
        self.feasible: Optional[bool] = None
        if sf is None:
            self.feasible = False
            return
        self.xmap, self.A, self.b, self.nz = sf
        self._phase1()

    # -- tableau helpers ---------------------------------------------------------------------
    def _phase1(self):
        m, nz = len(self.A), self.nz
        ncols = nz + m  # artificial column for every row (identity)
        T = []
        for i in range(m):
            row = [F(0)] * (ncols + 1)
            sgn = 1 if self.b[i] >= 0 else -1
            for k, v in self.A[i].items():
                row[k] = v * sgn
            row[nz + i] = F(1)
            row[ncols] = self.b[i] * sgn
            T.append(row)
        self.sign = [1 if self.b[i] >= 0 else -1 for i in range(m)]
        self.m, self.ncols = m, ncols
        basis = [nz + i for i in range(m)]
        cost = [F(0)] * nz + [F(1)] * m
        status = self._simplex(T, basis, cost, allowed=ncols)
        if status != "optimal":  # phase 1 is bounded below by 0
            raise OracleError("phase 1 did not terminate optimally")
        val = sum(cost[basis[i]] * T[i][ncols] for i in range(m))
        if val > 0:
            # Farkas vector from phase-1 duals: y_i = c_art - redcost(art_i) in the sign-normalised system
            red = self._reduced(T, basis, cost)
            y = [(F(1) - red[nz + i]) * self.sign[i] for i in range(m)]
            self._verify_farkas(y)
            self.feasible = False
            self.farkas = y
            return
        # drive artificials out of the basis where possible
        for i in range(m):
            if basis[i] >= nz:
                piv = next((k for k in range(nz) if T[i][k] != 0), None)
                if piv is not None:
                    self._pivot(T, basis, i, piv)
        self.T, self.basis = T, basis
        self.feasible = True

    @staticmethod
    def _pivot(T, basis, r, k):
        prow = T[r]
        p = prow[k]
        if p != 1:
            inv = 1 / p
            prow = T[r] = [v * inv if v else v for v in prow]
        nzidx = [j for j, v in enumerate(prow) if v]
        for i, row in enumerate(T):
            if i != r:
                f = row[k]
                if f:
                    for j in nzidx:
                        row[j] -= f * prow[j]
        basis[r] = k

    def _reduced(self, T, basis, cost):
        ncols = self.ncols
        red = list(cost)
        for i, bi in enumerate(basis):
            cb = cost[bi]
            if cb:
                row = T[i]
                for j in range(ncols):
                    if row[j]:
                        red[j] -= cb * row[j]
        return red

    def _simplex(self, T, basis, cost, allowed):
        """Minimise cost.z ; only columns < allowed may enter. Bland's rule."""
        ncols = self.ncols
        it = 0
        while True:
            it += 1
            if it > 20000:
                raise OracleError("simplex iteration limit")
            red = self._reduced(T, basis, cost)
            enter = next((j for j in range(allowed) if red[j] < 0), None)
            if enter is None:
                return "optimal"
            best, leave = None, None
            for i in range(len(T)):
                a = T[i][enter]
                if a > 0:
                    ratio = T[i][ncols] / a
                    if best is None or ratio < best or (ratio == best and basis[i] < basis[leave]):
                        best, leave = ratio, i
            if leave is None:
                self._ray_col = enter
                return "unbounded"
            self._pivot(T, basis, leave, enter)

    # -- public ------------------------------------------------------------------------------
    def solve(self, c: Dict[int, object], sense: str = "max") -> Result:
        if not self.feasible:
            return Result("infeasible", farkas=None if self.trivially_infeasible else self.farkas)
        nz, m, ncols = self.nz, self.m, self.ncols
        sgn = F(-1) if sense.startswith("max") else F(1)
        cz = [F(0)] * ncols
        const = F(0)
        for j, v in c.items():
            v = frac(v)
            c0, mp = self.xmap[j]
            const += v * c0
            for k, w in mp.items():
                cz[k] += sgn * v * w
        T = [list(r) for r in self.T]
        basis = list(self.basis)
        status = self._simplex(T, basis, cz, allowed=nz)
        z = [F(0)] * ncols
        for i, bi in enumerate(basis):
            z[bi] = T[i][ncols]
        if status == "optimal":
            red = self._reduced(T, basis, cz)
            y = [(-red[nz + i]) * self.sign[i] for i in range(m)]
            self._verify_optimal(z, y, cz)
            x = self._x_from_z(z)
            val = sum(frac(v) * x[j] for j, v in c.items())
            self._verify_primal_original(x)
            return Result("optimal", value=val, x=x)
        k = self._ray_col
        r = [F(0)] * ncols
        r[k] = F(1)
        for i, bi in enumerate(basis):
            r[bi] = -T[i][k]
        self._verify_unbounded(z, r, cz)
        return Result("unbounded", x=self._x_from_z(z), ray=r[:nz])

    def _x_from_z(self, z):
        return [c0 + sum(w * z[k] for k, w in mp.items()) for c0, mp in self.xmap]

    # -- certificate verification (exact) ------------------------------------------------------
    def _verify_farkas(self, y):
        m, nz = len(self.A), self.nz
        col = [F(0)] * nz
        for i in range(m):
            for k, v in self.A[i].items():
                col[k] += y[i] * v
        if any(v > 0 for v in col) or not sum(y[i] * self.b[i] for i in range(m)) > 0:
            raise OracleError("Farkas certificate does not verify")

    def _verify_optimal(self, z, y, cz):
        m, nz = len(self.A), self.nz
        if any(z[k] < 0 for k in range(nz)) or any(z[k] != 0 for k in range(nz, self.ncols)):
            raise OracleError("optimal: primal not feasible (sign / artificial)")
        for i in range(m):
            if sum(v * z[k] for k, v in self.A[i].items()) != self.b[i]:
                raise OracleError("optimal: primal row violated")
        col = [F(0)] * nz
        for i in range(m):
            for k, v in self.A[i].items():
                col[k] += y[i] * v
        if any(cz[k] - col[k] < 0 for k in range(nz)):
            raise OracleError("optimal: dual infeasible")
        if sum(cz[k] * z[k] for k in range(nz)) != sum(y[i] * self.b[i] for i in range(m)):
            raise OracleError("optimal: duality gap")

    def _verify_unbounded(self, z, r, cz):
        nz = self.nz
        if any(z[k] < 0 for k in range(nz)) or any(r[k] < 0 for k in range(nz)):
            raise OracleError("unbounded: sign")
        if any(z[k] != 0 or r[k] != 0 for k in range(nz, self.ncols)):
            raise OracleError("unbounded: artificial in use")
        for i in range(len(self.A)):
            if sum(v * z[k] for k, v in self.A[i].items()) != self.b[i]:
                raise OracleError("unbounded: point infeasible")
            if sum(v * r[k] for k, v in self.A[i].items()) != 0:
                raise OracleError("unbounded: ray leaves feasible set")
        if not sum(cz[k] * r[k] for k in range(nz)) < 0:
            raise OracleError("unbounded: ray does not improve")

    def _verify_primal_original(self, x):
        lp = self.lp
        for j in range(lp.n):
            if (lp.lb[j] is not None and x[j] < lp.lb[j]) or (lp.ub[j] is not None and x[j] > lp.ub[j]):
                raise OracleError("optimal: original bound violated")
        for coefs, lo, hi in lp.rows:
            v = sum(a * x[j] for j, a in coefs.items())
            if (lo is not None and v < lo) or (hi is not None and v > hi):
                raise OracleError("optimal: original row violated")


def solve(n, bounds: Sequence[Tuple[object, object]], rows, c: Dict[int, object], sense="max") -> Result:
    lp = LP(n)
    for j, (lo, hi) in enumerate(bounds):
        lp.lb[j], lp.ub[j] = frac(lo), frac(hi)
    for coefs, lo, hi in rows:
        lp.add_row(coefs, lo, hi)
    return lp.solve(c, sense)
