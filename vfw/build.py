"""ModelSpec -> cobra.Model through the public API (several build paths) and ModelSpec -> exact LP."""
from __future__ import annotations

import copy as _copy
from typing import Any, Dict, List, Optional

from vfw import gprtree
from vfw.exactlp import LP, frac

# "switch_after": the model is populated on the other solver interface and moved to the spec's interface at the end;
# "switch_twice": populated on the spec's interface, moved to the other one and back (the public `model.solver` setter)
# provenance paths: the same model after a life that must not matter - "copied" (Model.copy of the built model),
# "pickled" (pickle round trip), "optimized_first" (one optimize() before it is handed over, so that the solver holds a
# basis), "context_churn" (a `with model:` block with knock-outs, another objective and an optimisation that is left)
BUILD_PATHS = ["bulk", "one_by_one", "mets_first", "mets_implicit_ids", "switch_after", "switch_twice",
               "copied", "pickled", "optimized_first", "context_churn", "stoich_late", "direction_first"]
_OTHER = {"glpk": "glpk_exact", "glpk_exact": "glpk"}
# additional paths for checks that do not audit the solver content row by row: "free_row_early" puts an unbounded row over
# a variable fixed at zero into the problem after the first metabolite (the mass balances are then not the leading rows of
# the LP; the LP itself is unchanged); "lists_reordered" reverses model.metabolites and sorts model.reactions descending
# after the build (list order differs from row/column order).
BUILD_PATHS_LP = BUILD_PATHS + ["free_row_early", "lists_reordered"]


def reset_globals():
    """Restore process-wide cobra state at the top of every case."""
    import cobra

    cfg = cobra.Configuration()
    cfg.solver = "glpk"
    cfg.tolerance = 1e-07
    cfg.lower_bound = -1000.0
    cfg.upper_bound = 1000.0
    cfg.processes = 1


def make_metabolite(m):
    from cobra import Metabolite

    met = Metabolite(m["id"], formula=m.get("formula"), name=m.get("name", ""), charge=m.get("charge"),
                     compartment=m.get("compartment"))
    met.notes = _copy.deepcopy(m.get("notes", {}))
    met.annotation = _copy.deepcopy(m.get("annotation", {}))
    return met


def make_reaction(r, mets: Dict[str, Any], rule_spelling: str = "word"):
    from cobra import Reaction

    rx = Reaction(r["id"], name=r.get("name", ""), subsystem=r.get("subsystem", ""), lower_bound=r["lb"], upper_bound=r["ub"])
    rx.add_metabolites({mets[m]: c for m, c in r["mets"].items()})
    if r.get("gpr") is not None:
        rx.gene_reaction_rule = gprtree.render(r["gpr"], rule_spelling)
    rx.notes = _copy.deepcopy(r.get("notes", {}))
    rx.annotation = _copy.deepcopy(r.get("annotation", {}))
    return rx


def build_model(spec, path: str = "bulk", set_solver: bool = True):
    """Realise a spec. Returns the cobra model."""
    import cobra
    from cobra import Model
    from cobra.core import Group

    model = Model(spec.get("id", "m"), name=spec.get("name"))
    want = spec.get("solver", "glpk")
    if set_solver:
        first = _OTHER[want] if path == "switch_after" else want
        if first != "glpk":
            model.solver = first
    mets = {m["id"]: make_metabolite(m) for m in spec["mets"]}
    if path in ("mets_first", "mets_implicit_ids"):
        model.add_metabolites(list(mets.values()))
    if path == "free_row_early":
        first = list(mets.values())[:1]
        if first:
            model.add_metabolites(first)
        var = model.problem.Variable("free_var", lb=0, ub=0)
        model.add_cons_vars([var, model.problem.Constraint(var, lb=None, ub=None, name="free_row")])
        model.add_metabolites(list(mets.values())[1:])
    if path == "stoich_late":
        # the reactions enter the model empty; their stoichiometry is written afterwards through add_metabolites with every
        # documented kind of key (the model's object, its identifier, a fresh object / a copy with the same identifier), in
        # one step or in two halves (since seeded change C04-8)
        by_id = {m["id"]: m for m in spec["mets"]}
        model.add_metabolites(list(mets.values()))
        rxns = [make_reaction({**r, "mets": {}}, mets) for r in spec["rxns"]]
        model.add_reactions(rxns)
        for k, (r, rx) in enumerate(zip(spec["rxns"], rxns)):
            for j, (m, c) in enumerate(r["mets"].items()):
                def key(i):
                    return [mets[m], m, make_metabolite(by_id[m]), mets[m].copy()][i % 4]
                if (k + j) % 3 == 0 and c != 0:
                    rx.add_metabolites({key(k + j): c / 2})
                    rx.add_metabolites({key(k + j + 1): c / 2})
                else:
                    rx.add_metabolites({key(k + j): c})
        rxns = []
    else:
        rxns = [make_reaction(r, mets) for r in spec["rxns"]]
    if path == "stoich_late":
        pass
    elif path == "one_by_one":
        for rx in rxns:
            model.add_reactions([rx])
    else:
        model.add_reactions(rxns)
    # metabolites that no reaction uses
    missing = [m for mid, m in mets.items() if mid not in model.metabolites]
    if missing:
        model.add_metabolites(missing)
    if spec.get("compartments"):
        model.compartments = dict(spec["compartments"])
    # genes that no rule uses (spec entries marked "unused"): a gene that leaves a rule stays in the model, so one
    # reaction carries the gene for a moment and gets its rule back
    for g in spec.get("genes", []):
        if g.get("unused") and g["id"] not in model.genes and len(model.reactions):
            host = model.reactions[0]
            keep = host.gene_reaction_rule
            host.gene_reaction_rule = g["id"]
            host.gene_reaction_rule = keep
    for g in spec.get("genes", []):
        if g["id"] in model.genes:
            gene = model.genes.get_by_id(g["id"])
            gene.name = g.get("name", "")
            gene.notes = _copy.deepcopy(g.get("notes", {}))
            gene.annotation = _copy.deepcopy(g.get("annotation", {}))
    if path in ("direction_first", "stoich_late"):
        # the direction is chosen before the objective is assigned (the objective setter has to keep it; since C04-9)
        model.objective_direction = spec.get("direction", "max")
    if spec.get("objective") is not None:
        model.objective = {model.reactions.get_by_id(rid): c for rid, c in spec["objective"].items()}
    if path not in ("direction_first", "stoich_late"):
        model.objective_direction = spec.get("direction", "max")
    grps = []
    for g in spec.get("groups", []):
        members = []
        for kind, xid in g["members"]:
            dl = {"r": model.reactions, "m": model.metabolites, "g": model.genes}[kind]
            members.append(dl.get_by_id(xid))
        grp = Group(g["id"], name=g.get("name", ""), members=members, kind=g.get("kind"))
        grp.notes = _copy.deepcopy(g.get("notes", {}))
        grp.annotation = _copy.deepcopy(g.get("annotation", {}))
        grps.append(grp)
    if grps:
        model.add_groups(grps)
    for c in spec.get("cons", []):
        expr = sum(coef * model.reactions.get_by_id(rid).flux_expression for rid, coef in c["coefs"].items())
        model.add_cons_vars([model.problem.Constraint(expr, lb=c["lb"], ub=c["ub"], name=c["name"])])
    model.notes = _copy.deepcopy(spec.get("notes", {}))
    model.annotation = _copy.deepcopy(spec.get("annotation", {}))
    if set_solver and path == "switch_after":
        model.solver = want
    elif set_solver and path == "switch_twice":
        model.solver = _OTHER[want]
        model.solver = want
    elif path == "lists_reordered":
        model.metabolites.reverse()
        model.reactions.sort(key=lambda r: r.id, reverse=True)
    elif path == "copied":
        model = model.copy()
    elif path == "pickled":
        import pickle

        model = pickle.loads(pickle.dumps(model))
    elif path == "optimized_first":
        model.slim_optimize()
    elif path == "context_churn":
        with model:
            for k, rx in enumerate(model.reactions):
                if k % 2 == 0:
                    rx.knock_out()
            if len(model.reactions):
                model.objective = model.reactions[-1]
                model.objective_direction = "min"
            model.slim_optimize()
    return model


# ------------------------------------------------------------------------------------------
# exact side
# ------------------------------------------------------------------------------------------
class ExactModel:
    """The flux-balance problem of a spec in exact arithmetic (net fluxes, one variable per reaction)."""

    def __init__(self, spec, knocked: Optional[List[str]] = None, bounds_override: Optional[Dict[str, Any]] = None):
        self.rids = [r["id"] for r in spec["rxns"]]
        self.mids = [m["id"] for m in spec["mets"]]
        self.idx = {rid: j for j, rid in enumerate(self.rids)}
        self.spec = spec
        lp = LP(len(self.rids))
        knocked = set(knocked or ())
        for j, r in enumerate(spec["rxns"]):
            lb, ub = r["lb"], r["ub"]
            if bounds_override and r["id"] in bounds_override:
                lb, ub = bounds_override[r["id"]]
            if r["id"] in knocked:
                lb, ub = 0, 0
            lp.lb[j], lp.ub[j] = frac(lb), frac(ub)
        rows = {m: {} for m in self.mids}
        for j, r in enumerate(spec["rxns"]):
            for m, c in r["mets"].items():
                if c != 0:
                    rows[m][j] = frac(c)
        self.S = rows
        for m in self.mids:
            lp.add_row(rows[m], 0, 0)
        for c in spec.get("cons", []):
            lp.add_row({self.idx[rid]: v for rid, v in c["coefs"].items()}, c["lb"], c["ub"])
        self.lp = lp
        self.c = {self.idx[rid]: frac(v) for rid, v in (spec.get("objective") or {}).items()}
        self.sense = spec.get("direction", "max")

    def solve(self, c=None, sense=None):
        return self.lp.solve(self.c if c is None else c, self.sense if sense is None else sense)
