"""Entry point of one shard subprocess (spawned by vfw.engine.run_check)."""
import sys

from vfw.engine import shard_main

if __name__ == "__main__":
    sys.exit(shard_main(sys.argv[1:]))
