"""Coverage-guided campaign (atheris/libFuzzer) over a Hypothesis strategy: the same property, bytes decoded by the same
strategies (test.hypothesis.fuzz_one_input), oracle inside the target.  libFuzzer never returns from Fuzz(), so the
shard result is written incrementally from inside the target."""
from __future__ import annotations

import os
import sys
import tempfile
import time

from vfw.engine import PropertyViolation, canon

DEPS = os.path.join(os.path.dirname(os.path.dirname(os.path.abspath(__file__))), ".deps")


def available() -> bool:
    if DEPS not in sys.path:
        sys.path.insert(0, DEPS)
    try:
        import atheris  # noqa: F401

        return True
    except Exception:  # noqa: BLE001
        return False


def campaign(ctx, strategy, check, check_name: str, runs: int, instrument_prefixes, max_len: int = 4096):
    """Runs in a shard process and does not return normally (libFuzzer exits the process)."""
    import atheris
    from hypothesis import HealthCheck, given, settings

    out_path = ctx.current_path[: -len(".current")]
    state = {"n": 0, "last_dump": time.time()}

    def dump():
        res = ctx.result()
        res["harness_error"] = None
        res["notes"] = res["notes"] + [f"atheris campaign: {state['n']} target executions"]
        tmp = out_path + ".tmp"
        with open(tmp, "w") as fh:
            fh.write(canon(res))
        os.replace(tmp, out_path)

    @settings(database=None, deadline=None, suppress_health_check=list(HealthCheck), max_examples=1)
    @given(strategy)
    def test(case):
        ctx.run_case(case, check, check_name)

    fuzz_one = test.hypothesis.fuzz_one_input

    # instrument the modules under test (already imported by ensure_sut) function by function
    import importlib

    for name in list(sys.modules):
        if any(name == p or name.startswith(p + ".") for p in instrument_prefixes):
            mod = sys.modules[name]
            for attr in list(vars(mod).values()):
                try:
                    if isinstance(attr, type) and attr.__module__ == name:
                        for k, f in list(vars(attr).items()):
                            if callable(f) and hasattr(f, "__code__"):
                                setattr(attr, k, atheris.instrument_func(f))
                    elif callable(attr) and hasattr(attr, "__code__") and getattr(attr, "__module__", None) == name:
                        setattr(mod, attr.__name__, atheris.instrument_func(attr))
                except Exception:  # noqa: BLE001 - some callables cannot be instrumented; coverage is best effort
                    pass

    def target(data: bytes):
        state["n"] += 1
        try:
            fuzz_one(data)
        except PropertyViolation:
            dump()  # recorded by ctx.run_case; keep fuzzing for other buckets
        if state["n"] % 500 == 0 and time.time() - state["last_dump"] > 5:
            state["last_dump"] = time.time()
            dump()
        if ctx.over_budget() or state["n"] >= runs:
            dump()
            os._exit(0)

    corpus = tempfile.mkdtemp(prefix="vfw-corpus-")
    dump()
    atheris.Setup([sys.argv[0], f"-runs={runs + 10}", f"-seed={ctx.derived_seed() % (2**31 - 1) or 1}", f"-max_len={max_len}", "-verbosity=0", corpus], target)
    atheris.Fuzz()
