"""Exact oracles built on exactlp: FBA, FVA (fraction / total-flux cap / loopless), pFBA, linear MOMA, ROOM, blocked sets.

Every function works on a pure-data ModelSpec (never on the cobra object that is being judged).
"""
from __future__ import annotations

import itertools
from fractions import Fraction as F
from typing import Dict, Iterable, List, Optional, Sequence, Tuple

from vfw.exactlp import LP, OracleError, Solver, frac


class FluxLP:
    """LP over net fluxes v (one variable per reaction) with optional absolute-value variables t_j >= |v_j|."""

    def __init__(self, spec, knocked: Iterable[str] = (), bounds_override: Optional[Dict[str, Tuple]] = None, with_abs: bool = False,
                 abs_offsets: Optional[Dict[str, object]] = None):
        self.spec = spec
        self.rids = [r["id"] for r in spec["rxns"]]
        self.idx = {rid: j for j, rid in enumerate(self.rids)}
        n = len(self.rids)
        self.n = n
        self.with_abs = with_abs
        lp = LP(2 * n if with_abs else n)
        knocked = set(knocked)
        self.bounds = []
        for j, r in enumerate(spec["rxns"]):
            lb, ub = r["lb"], r["ub"]
            if bounds_override and r["id"] in bounds_override:
                lb, ub = bounds_override[r["id"]]
            if r["id"] in knocked:
                lb, ub = 0, 0
            lp.lb[j], lp.ub[j] = frac(lb), frac(ub)
            self.bounds.append((frac(lb), frac(ub)))
        for m in spec["mets"]:
            row = {j: frac(r["mets"][m["id"]]) for j, r in enumerate(spec["rxns"]) if r["mets"].get(m["id"], 0) != 0}
            lp.add_row(row, 0, 0)
        for c in spec.get("cons", []):
            lp.add_row({self.idx[rid]: v for rid, v in c["coefs"].items()}, c["lb"], c["ub"])
        if with_abs:
            # t_j >= |v_j - w_j|   (w = abs_offsets, default 0)
            for j, rid in enumerate(self.rids):
                w = frac((abs_offsets or {}).get(rid, 0))
                lp.lb[n + j], lp.ub[n + j] = F(0), None
                lp.add_row({n + j: 1, j: -1}, -w, None)  # t - v >= -w
                lp.add_row({n + j: 1, j: 1}, w, None)  # t + v >= w
        self.lp = lp
        self.c = {self.idx[rid]: frac(v) for rid, v in (spec.get("objective") or {}).items() if v != 0}
        self.sense = spec.get("direction", "max")

    def abs_objective(self):
        return {self.n + j: F(1) for j in range(self.n)}

    def add_objective_row(self, value, sense=None, c=None):
        sense = sense or self.sense
        c = self.c if c is None else c
        if sense == "max":
            self.lp.add_row(c, value, None)
        else:
            self.lp.add_row(c, None, value)

    def add_abs_cap(self, cap):
        self.lp.add_row(self.abs_objective(), None, cap)

    def solver(self) -> Solver:
        return Solver(self.lp)


def fba(spec, knocked=(), sense=None, bounds_override=None):
    flp = FluxLP(spec, knocked, bounds_override)
    return flp.lp.solve(flp.c, sense or flp.sense), flp


def fva(spec, rids: Sequence[str], fraction=1, pfba_factor=None, knocked=(), objective_row: bool = True):
    """Exact flux ranges. Returns (status, {rid: (min|None, max|None)}, info). None = unbounded end."""
    res, flp0 = fba(spec, knocked)
    info = {"fba": res.status}
    if objective_row and res.status != "optimal":
        return res.status, {}, info
    with_abs = pfba_factor is not None
    flp = FluxLP(spec, knocked, with_abs=with_abs)
    if objective_row:
        bound = frac(fraction) * res.value
        flp.add_objective_row(bound)
        info["objective_bound"] = bound
    if with_abs:
        t = flp.lp.solve(flp.abs_objective(), "min")
        if t.status != "optimal":
            raise OracleError(f"parsimonious problem is {t.status}")
        info["T"] = t.value
        flp.add_abs_cap(frac(pfba_factor) * t.value)
    solver = flp.solver()
    out = {}
    for rid in rids:
        j = flp.idx[rid]
        lo = solver.solve({j: F(1)}, "min")
        hi = solver.solve({j: F(1)}, "max")
        if lo.status == "infeasible":
            return "infeasible", {}, info
        out[rid] = (lo.value if lo.status == "optimal" else None, hi.value if hi.status == "optimal" else None)
    return "optimal", out, info


def blocked(spec, rids: Sequence[str], open_exchanges_ids: Sequence[str] = ()):
    """Reactions whose exact flux range over all steady states within the bounds is {0}."""
    override = {rid: (-1000, 1000) for rid in open_exchanges_ids}
    flp = FluxLP(spec, bounds_override=override)
    solver = flp.solver()
    if not solver.feasible:
        return None
    out = []
    for rid in rids:
        j = flp.idx[rid]
        lo, hi = solver.solve({j: F(1)}, "min"), solver.solve({j: F(1)}, "max")
        if lo.status == "optimal" and hi.status == "optimal" and lo.value == 0 and hi.value == 0:
            out.append(rid)
    return out


def pfba(spec, fraction=1, objective=None, sense=None, knocked=()):
    """(status, T*, objective bound).  min sum |v|  s.t.  c.v >= fraction * opt (max)  /  <= (min)."""
    spec2 = dict(spec)
    if objective is not None:
        spec2["objective"] = objective
    if sense is not None:
        spec2["direction"] = sense
    res, _ = fba(spec2, knocked)
    if res.status != "optimal":
        return res.status, None, None
    flp = FluxLP(spec2, knocked, with_abs=True)
    bound = frac(fraction) * res.value
    flp.add_objective_row(bound)
    t = flp.lp.solve(flp.abs_objective(), "min")
    if t.status != "optimal":
        raise OracleError(f"pfba problem {t.status}")
    return "optimal", t.value, bound


def linear_moma(spec, reference: Dict[str, float], knocked=()):
    """(status, D*, (growth_min, growth_max) over the set of minimal-distance solutions)."""
    flp = FluxLP(spec, knocked, with_abs=True, abs_offsets={k: F(v) for k, v in reference.items()})
    d = flp.lp.solve(flp.abs_objective(), "min")
    if d.status != "optimal":
        return d.status, None, None
    flp.add_abs_cap(d.value)
    s = flp.solver()
    lo, hi = s.solve(flp.c, "min"), s.solve(flp.c, "max")
    return "optimal", d.value, (lo.value, hi.value)


def room_linear(spec, reference: Dict[str, float], delta, epsilon, knocked=()):
    """Exact optimum of the documented relaxed ROOM formulation: min sum y_i, 0<=y_i<=1,
    v_i - y_i (ub_i - w_u_i) <= w_u_i ;  v_i - y_i (lb_i - w_l_i) >= w_l_i  with w_u = w + delta|w| + eps, w_l = w - delta|w| - eps."""
    return _room(spec, reference, delta, epsilon, knocked, binary=None)


def _room(spec, reference, delta, epsilon, knocked, binary, slack=0):
    rids = [r["id"] for r in spec["rxns"]]
    n = len(rids)
    lp = LP(2 * n)
    knocked = set(knocked)
    for j, r in enumerate(spec["rxns"]):
        lb, ub = (0, 0) if r["id"] in knocked else (r["lb"], r["ub"])
        lp.lb[j], lp.ub[j] = frac(lb), frac(ub)
        w = F(reference[r["id"]])
        wu = w + frac(delta) * abs(w) + frac(epsilon) + frac(slack)
        wl = w - frac(delta) * abs(w) - frac(epsilon) - frac(slack)
        if binary is None:
            lp.lb[n + j], lp.ub[n + j] = F(0), F(1)
        else:
            lp.lb[n + j] = lp.ub[n + j] = F(binary[j])
        # v - y*(ub - wu) <= wu ;  v - y*(lb - wl) >= wl     (bounds of the *current* reaction object)
        lp.add_row({j: 1, n + j: -(frac(ub) - wu)}, None, wu)
        lp.add_row({j: 1, n + j: -(frac(lb) - wl)}, wl, None)
    for m in spec["mets"]:
        row = {j: frac(r["mets"][m["id"]]) for j, r in enumerate(spec["rxns"]) if r["mets"].get(m["id"], 0) != 0}
        lp.add_row(row, 0, 0)
    return lp.solve({n + j: F(1) for j in range(n)}, "min")


def room_binary(spec, reference, delta, epsilon, knocked=(), max_n=8, slack=0):
    """Exact minimum number of significantly changed fluxes by enumeration of y in {0,1}^n (ascending size).
    `slack` widens (>0) or narrows (<0) every band: the band edges are floating-point expressions of the reference
    fluxes, so a flux sitting exactly on an edge is inside or outside depending on round-off."""
    n = len(spec["rxns"])
    if n > max_n:
        raise OracleError("too many reactions for ROOM enumeration")
    for k in range(n + 1):
        for ones in itertools.combinations(range(n), k):
            y = [1 if j in ones else 0 for j in range(n)]
            r = _room(spec, reference, delta, epsilon, knocked, binary=y, slack=slack)
            if r.status == "optimal":
                return "optimal", k
    return "infeasible", None


# ------------------------------------------------------------------------------------------
# loops
# ------------------------------------------------------------------------------------------
def internal_ids(spec) -> List[str]:
    """Reactions that are not boundary reactions (cobra: exactly one metabolite and not both sides)."""
    return [r["id"] for r in spec["rxns"] if not (len([c for c in r["mets"].values() if c != 0]) == 1)]


def has_conformal_cycle(spec, signs: Dict[str, int]) -> bool:
    """Is there a non-zero w in null(S_int) with w_i > 0 only where signs[i] > 0, w_i < 0 only where signs[i] < 0,
    w_i = 0 where signs[i] == 0 ?"""
    ids = [rid for rid in internal_ids(spec) if signs.get(rid, 0) != 0]
    if not ids:
        return False
    idx = {rid: j for j, rid in enumerate(ids)}
    lp = LP(len(ids))
    rx = {r["id"]: r for r in spec["rxns"]}
    for rid, j in idx.items():
        if signs[rid] > 0:
            lp.lb[j], lp.ub[j] = F(0), None
        else:
            lp.lb[j], lp.ub[j] = None, F(0)
    for m in spec["mets"]:
        row = {idx[rid]: frac(rx[rid]["mets"][m["id"]]) for rid in ids if rx[rid]["mets"].get(m["id"], 0) != 0}
        if row:
            lp.add_row(row, 0, 0)
    lp.add_row({idx[rid]: F(signs[rid]) for rid in ids}, 1, 1)
    return lp.solve({}, "max").status == "optimal"


def removable_cycle(spec, flux: Dict[str, object], objective_value=None) -> F:
    """Largest total cycle flux that can still be removed from `flux` without changing boundary fluxes, the
    objective, or any sign, and without any flux growing: max sum sigma_i w_i  s.t. S_int w = 0,
    0 <= sigma_i w_i <= |v_i|, c.w = 0, v - w within bounds."""
    ids = internal_ids(spec)
    v = {rid: frac(flux[rid]) for rid in ids}
    act = [rid for rid in ids if v[rid] != 0]
    if not act:
        return F(0)
    idx = {rid: j for j, rid in enumerate(act)}
    rx = {r["id"]: r for r in spec["rxns"]}
    lp = LP(len(act))
    for rid, j in idx.items():
        if v[rid] > 0:
            lp.lb[j], lp.ub[j] = F(0), v[rid]
        else:
            lp.lb[j], lp.ub[j] = v[rid], F(0)
    for m in spec["mets"]:
        row = {idx[rid]: frac(rx[rid]["mets"][m["id"]]) for rid in act if rx[rid]["mets"].get(m["id"], 0) != 0}
        if row:
            lp.add_row(row, 0, 0)
    c = {idx[rid]: frac(cv) for rid, cv in (spec.get("objective") or {}).items() if rid in idx and cv != 0}
    if c:
        lp.add_row(c, 0, 0)
    res = lp.solve({idx[rid]: F(1 if v[rid] > 0 else -1) for rid in act}, "max")
    if res.status != "optimal":
        raise OracleError(f"cycle LP {res.status}")
    return res.value


def loopless_patterns(spec):
    """All sign patterns (over internal reactions, restricted by bounds) that admit no conformal internal cycle."""
    ids = internal_ids(spec)
    rx = {r["id"]: r for r in spec["rxns"]}
    choices = []
    for rid in ids:
        lb, ub = rx[rid]["lb"], rx[rid]["ub"]
        opts = [0]
        if ub > 0:
            opts.append(1)
        if lb < 0:
            opts.append(-1)
        if lb > 0:
            opts = [1]
        if ub < 0:
            opts = [-1]
        choices.append(opts)
    out = []
    for combo in itertools.product(*choices):
        signs = dict(zip(ids, combo))
        if not has_conformal_cycle(spec, signs):
            out.append(signs)
    # keep maximal patterns only (a pattern with a zero is covered by a cycle-free pattern that opens it)
    maximal = []
    for s in out:
        if not any(o is not s and all(s[k] == 0 or s[k] == o[k] for k in s) and any(s[k] != o[k] for k in s) for o in out):
            maximal.append(s)
    return ids, maximal


def loopless_extremes(spec, rids, fraction=1, objective_row=True, max_patterns=400):
    """Exact min/max of each requested flux over distributions without internal cycle (sign-pattern enumeration)."""
    res, _ = fba(spec)
    ids, pats = loopless_patterns(spec)
    if len(pats) > max_patterns:
        raise OracleError("too many patterns")
    rx = {r["id"]: r for r in spec["rxns"]}
    best: Dict[str, List[Optional[F]]] = {rid: [None, None] for rid in rids}
    any_feasible = False
    # loopless optimum first (the objective row refers to the plain optimum in cobra's FVA)
    for signs in pats:
        override = {}
        for rid, s in signs.items():
            lb, ub = rx[rid]["lb"], rx[rid]["ub"]
            if s == 0:
                override[rid] = (0, 0)
            elif s > 0:
                override[rid] = (max(lb, 0), ub)
            else:
                override[rid] = (lb, min(ub, 0))
        flp = FluxLP(spec, bounds_override=override)
        if objective_row:
            if res.status != "optimal":
                return res.status, {}
            flp.add_objective_row(frac(fraction) * res.value)
        s = flp.solver()
        if not s.feasible:
            continue
        any_feasible = True
        for rid in rids:
            j = flp.idx[rid]
            lo, hi = s.solve({j: F(1)}, "min"), s.solve({j: F(1)}, "max")
            if lo.status == "optimal" and (best[rid][0] is None or lo.value < best[rid][0]):
                best[rid][0] = lo.value
            if hi.status == "optimal" and (best[rid][1] is None or hi.value > best[rid][1]):
                best[rid][1] = hi.value
    if not any_feasible:
        return "infeasible", {}
    return "optimal", {k: tuple(v) for k, v in best.items()}
