"""Schedule controller for cobrapy's multiprocessing paths (parent-side patching; forked workers inherit it).

`controlled(module, task_name, delays, chunk)`:
  * module.<task_name> is replaced by a wrapper with the same __module__/__qualname__ (so that pickling by reference in
    the parent and lookup in the forked child both resolve to it) which sleeps a generated per-item delay (taken from
    the case data, never from a clock read) before calling the original;
  * module.ProcessPool is replaced by a subclass whose imap_unordered uses the generated chunk size and records the
    order in which results arrive in the parent.
"""
from __future__ import annotations

import contextlib
import time
from typing import Any, Callable, Dict, List, Optional


def _key(item) -> str:
    if isinstance(item, (set, frozenset)):
        return "|".join(sorted(map(str, item)))
    return str(item)


@contextlib.contextmanager
def controlled(module, task_name: str, delays_ms: List[int], chunk: Optional[int], record: Dict[str, Any]):
    orig = getattr(module, task_name)
    orig_pool = module.ProcessPool

    def wrapper(item):
        d = delays_ms[hash_stable(_key(item)) % len(delays_ms)] if delays_ms else 0
        if d:
            time.sleep(d / 1000.0)
        return orig(item)

    wrapper.__module__ = orig.__module__
    wrapper.__qualname__ = orig.__qualname__
    wrapper.__name__ = orig.__name__

    class ControlledPool(orig_pool):  # type: ignore[misc, valid-type]
        def imap_unordered(self, func, iterable, chunksize=1):
            items = list(iterable)
            record["submitted"] = [_key(i) for i in items]
            record["chunksize_requested"] = chunksize
            cs = chunk if chunk else chunksize
            record["chunksize_used"] = cs
            record["arrived"] = []

            def gen():
                for res in self._pool.imap_unordered(func, items, chunksize=max(1, cs)):
                    record["arrived"].append(_key(res[0]))
                    yield res

            return gen()

    setattr(module, task_name, wrapper)
    module.ProcessPool = ControlledPool
    try:
        yield record
    finally:
        setattr(module, task_name, orig)
        module.ProcessPool = orig_pool


def hash_stable(s: str) -> int:
    import hashlib

    return int.from_bytes(hashlib.blake2b(s.encode(), digest_size=4).digest(), "big")
