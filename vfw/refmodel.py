"""Executable reference of the *documented* edit semantics of cobra models (plain dictionaries).

Sources: docstrings of core/model.py, core/reaction.py, core/gene.py, manipulation/delete.py, manipulation/modify.py;
where a docstring is silent the statement of property C02 decides (no zero coefficients, no dangling entries) and the
choice is written next to the function.  The reference never looks at the cobra object it is compared with: selectors
are resolved against id orders handed in by the driver.
"""
from __future__ import annotations

import copy
from typing import Any, Dict, List, Optional, Tuple

from vfw import gprtree
from vfw.ops import GID, MID, RID

SBO = {"exchange": "SBO:0000627", "demand": "SBO:0000628", "sink": "SBO:0000632"}
PREFIX = {"exchange": "EX", "demand": "DM", "sink": "SK"}


_UID = [0]


def _uid():
    _UID[0] += 1
    return _UID[0]


def new_met(mid, compartment="c"):
    return {"name": "", "formula": None, "charge": None, "compartment": compartment, "notes": {}, "annotation": {}, "uid": _uid()}


def new_gene():
    return {"name": "", "functional": True, "notes": {}, "annotation": {}}


class Expect(Exception):
    """The documented behaviour of this call is to raise."""

    def __init__(self, types):
        self.types = types if isinstance(types, tuple) else (types,)


class Undefined(Exception):
    """The documentation does not define the result of this call on this state."""


class Ref:
    def __init__(self, spec):
        self.id = spec.get("id", "m")
        self.name = spec.get("name")
        self.notes = copy.deepcopy(spec.get("notes", {}))
        self.annotation = copy.deepcopy(spec.get("annotation", {}))
        self.tolerance = 1e-07
        self.comp_names: Dict[str, str] = dict(spec.get("compartments", {}))
        self.mets: Dict[str, Dict[str, Any]] = {}
        for m in spec["mets"]:
            self.mets[m["id"]] = {"name": m.get("name", ""), "formula": m.get("formula"), "charge": m.get("charge"),
                                  "compartment": m.get("compartment"), "notes": copy.deepcopy(m.get("notes", {})),
                                  "annotation": copy.deepcopy(m.get("annotation", {})), "uid": _uid()}
        self.user_vars = set()  # names of user variables currently in the solver (an identifier clash makes an add fail)
        self.graveyard: List[int] = []  # uids of reaction objects taken out by remove_reactions, in removal order
        self.dead_rxns: Dict[int, Dict[str, Any]] = {}  # last state of every reaction object that left the model
        self.dead_mets: Dict[int, Tuple[str, Dict[str, Any]]] = {}  # metabolite objects that left the model
        self.genes: Dict[str, Dict[str, Any]] = {}
        self.rxns: Dict[str, Dict[str, Any]] = {}
        for r in spec["rxns"]:
            self.rxns[r["id"]] = {"mets": {m: c for m, c in r["mets"].items() if c != 0}, "lb": r["lb"], "ub": r["ub"],
                                  "rule": r.get("gpr"), "name": r.get("name", ""), "subsystem": r.get("subsystem", ""),
                                  "notes": copy.deepcopy(r.get("notes", {})), "annotation": copy.deepcopy(r.get("annotation", {})),
                                  "uid": _uid()}
            self._ensure_genes(r.get("gpr"))
        for g in spec.get("genes", []):
            if g["id"] in self.genes:
                self.genes[g["id"]].update({"name": g.get("name", ""), "notes": copy.deepcopy(g.get("notes", {})),
                                            "annotation": copy.deepcopy(g.get("annotation", {}))})
        self.objective = {k: float(v) for k, v in (spec.get("objective") or {}).items() if v != 0}
        self.direction = spec.get("direction", "max")
        self.groups: Dict[str, Dict[str, Any]] = {}
        for g in spec.get("groups", []):
            self.groups[g["id"]] = {"name": g.get("name", ""), "kind": g.get("kind", "collection"),
                                    "members": {(k, x) for k, x in g["members"]}, "notes": copy.deepcopy(g.get("notes", {})),
                                    "annotation": copy.deepcopy(g.get("annotation", {}))}

    # ------------------------------------------------------------------------------------------
    def _ensure_genes(self, tree):
        for g in sorted(gprtree.leaves(tree)):
            if g not in self.genes:
                self.genes[g] = new_gene()

    def _drop_member(self, kind, xid):
        for g in self.groups.values():
            g["members"].discard((kind, xid))

    def _rename_member(self, kind, old, new):
        for g in self.groups.values():
            if (kind, old) in g["members"]:
                g["members"].discard((kind, old))
                g["members"].add((kind, new))

    def _remove_rxn(self, rid, orphans=False):
        rec = self.rxns[rid]
        # the removed object keeps its content and its metabolite objects (tracked by uid: they may be renamed or
        # leave the model later)
        self.dead_rxns[rec["uid"]] = {"id": rid, "rec": {k: copy.deepcopy(v) for k, v in rec.items() if k != "mets"},
                                      "mets": [(self.mets[m]["uid"], c) for m, c in rec["mets"].items()]}
        r = self.rxns.pop(rid)
        self.objective.pop(rid, None)
        self._drop_member("r", rid)
        if orphans:
            for mid in r["mets"]:
                if mid in self.mets and not any(mid in x["mets"] for x in self.rxns.values()):
                    self._remove_met_entry(mid)
            for gid in gprtree.leaves(r["rule"]):
                if gid in self.genes and not any(gid in gprtree.leaves(x["rule"]) for x in self.rxns.values()):
                    del self.genes[gid]
                    self._drop_member("g", gid)

    def _remove_met_entry(self, mid):
        rec = self.mets.pop(mid)
        self.dead_mets[rec["uid"]] = (mid, rec)  # the object lives on outside the model with its last id
        self._drop_member("m", mid)

    @staticmethod
    def pick(order: List[str], k: int) -> Optional[str]:
        return order[k % len(order)] if order else None

    # ------------------------------------------------------------------------------------------
    # rendering in the shape of observe.snapshot (python side only)
    # ------------------------------------------------------------------------------------------
    def render(self) -> Dict[str, Any]:
        rx = {}
        for rid, r in self.rxns.items():
            genes = sorted(gprtree.leaves(r["rule"]))
            rx[rid] = {"bounds": (r["lb"], r["ub"]), "mets": dict(r["mets"]),
                       "rule": {"genes": genes, "table": gprtree.table(r["rule"], genes)}, "genes": genes, "name": r["name"],
                       "subsystem": r["subsystem"], "notes": r["notes"], "annotation": r["annotation"]}
        mets = {mid: {**{k: m[k] for k in ("name", "formula", "charge", "compartment", "notes", "annotation")},
                      "reactions": sorted(rid for rid, r in self.rxns.items() if mid in r["mets"])} for mid, m in self.mets.items()}
        genes = {gid: {**{k: g[k] for k in ("name", "functional", "notes", "annotation")},
                       "reactions": sorted(rid for rid, r in self.rxns.items() if gid in gprtree.leaves(r["rule"]))}
                 for gid, g in self.genes.items()}
        kinds = {"r": "Reaction", "m": "Metabolite", "g": "Gene"}
        groups = {gid: {"name": g["name"], "kind": g["kind"], "notes": g["notes"], "annotation": g["annotation"],
                        "members": sorted((kinds[k], x) for k, x in g["members"])} for gid, g in self.groups.items()}
        comps = {}
        for m in self.mets.values():
            if m["compartment"] is not None:
                comps[m["compartment"]] = self.comp_names.get(m["compartment"], "")
        return {
            "model": {"id": self.id, "name": self.name, "notes": self.notes, "annotation": self.annotation, "compartments": comps,
                      "tolerance": self.tolerance},
            "objective": dict(self.objective), "direction": self.direction,
            "order": {"reactions": sorted(self.rxns), "metabolites": sorted(self.mets), "genes": sorted(self.genes), "groups": sorted(self.groups)},
            "reactions": rx, "metabolites": mets, "genes": genes, "groups": groups,
        }

    # ------------------------------------------------------------------------------------------
    # operations.  `o` = id orders of the SUT before the op: {"r": [...], "m": [...], "g": [...], "grp": [...], "ex": [...]}
    # Each returns None; raises Expect(...) when the documented behaviour is an exception (state untouched).
    # ------------------------------------------------------------------------------------------
    def apply(self, op, o, sut_outcome: str):
        fn = getattr(self, "op_" + op["op"], None)
        if fn is None:
            return "unmodelled"
        backup = copy.deepcopy(self.__dict__)
        try:
            fn(op, o, sut_outcome)
        except Undefined:
            return "unmodelled"
        except Expect as e:
            self.__dict__ = backup
            return "raises:" + "|".join(t for t in e.types)
        return "ok"

    def _add_rxn_spec(self, d, rid=None):
        rid = rid or RID[d["id"]]
        mets = {}
        for idx, c in d["mets"]:
            mid = MID[idx]
            if mid not in self.mets:
                self.mets[mid] = new_met(mid)
            mets[mid] = c
        lb, ub = d["b"]
        self.rxns[rid] = {"mets": mets, "lb": lb, "ub": ub, "rule": d["rule"], "name": "", "subsystem": "", "notes": {}, "annotation": {},
                          "uid": _uid()}
        self._ensure_genes(d["rule"])

    def bad_rid(self, rid):
        """Identifiers that cannot become a reaction: rejected by the solver layer (whitespace) or already taken by a
        user variable. The documented behaviour of every operation is to raise on them and to change nothing."""
        return any(c.isspace() for c in rid) or rid in self.user_vars

    def op_add_reactions(self, op, o, out):
        # "Reactions with identifiers identical to a reaction already in the model are ignored."
        if any(self.bad_rid(RID[d["id"]]) for d in op["rxns"] if RID[d["id"]] not in self.rxns):
            raise Expect(("ValueError", "KeyError"))
        for d in op["rxns"]:
            if RID[d["id"]] not in self.rxns:
                self._add_rxn_spec(d)

    def op_remove_reactions(self, op, o, out):
        picked = [self.pick(o["r"], k) for k in op["sels"]]
        if op["via"] == "rxn" or op["single"]:
            picked = picked[:1]
        for rid in picked:
            if rid in self.rxns:  # a reaction listed twice is "not in the model" the second time (warning only)
                uid = self.rxns[rid]["uid"]
                self._remove_rxn(rid, op["orphans"])
                self.graveyard.append(uid)

    def op_detached_bounds(self, op, o, out):
        g = self.dead_rxns[self.graveyard[op["k"] % len(self.graveyard)]]
        lb, ub = op["b"]
        g["rec"]["lb"], g["rec"]["ub"] = lb, ub  # the detached object carries its new bounds back on re-adding

    def op_readd(self, op, o, out):
        g = self.dead_rxns[self.graveyard[op["k"] % len(self.graveyard)]]
        rid = g["id"]
        if rid in self.rxns:
            return  # "Reactions with identifiers identical to a reaction already in the model are ignored."
        if self.bad_rid(rid):  # e.g. a user variable took the identifier while the reaction was out of the model
            raise Expect(("ValueError", "KeyError"))
        mets = {}
        by_uid = {m["uid"]: mid for mid, m in self.mets.items()}
        for uid, c in g["mets"]:
            now = by_uid[uid] if uid in by_uid else self.dead_mets[uid][0]
            if now in mets:
                # two metabolite objects of the detached reaction carry the same identifier by now (one was renamed to the
                # identifier the other one had when it left the model): no documentation says which coefficient the
                # model's metabolite of that name gets - the history ends here
                raise Undefined()
            if uid in by_uid:
                mets[by_uid[uid]] = c
            else:
                mid, rec = self.dead_mets[uid]
                if mid not in self.mets:
                    self.mets[mid] = rec  # the reaction brings its metabolite object back into the model
                    del self.dead_mets[uid]
                mets[mid] = c  # otherwise re-pointed to the model's metabolite of that id
        self.rxns[rid] = {**copy.deepcopy(g["rec"]), "mets": mets}
        self._ensure_genes(g["rec"]["rule"])

    def op_add_metabolites(self, op, o, out):
        ids = [MID[i] for i in op["mets"]]
        if op["single"]:
            ids = ids[:1]
        if any(any(c.isspace() for c in mid) for mid in ids if mid not in self.mets):
            raise Expect("ValueError")
        for mid in ids:
            if mid not in self.mets:
                self.mets[mid] = new_met(mid)

    def op_remove_metabolites(self, op, o, out):
        picked = list(dict.fromkeys(self.pick(o["m"], k) for k in op["sels"]))
        if op["via"] == "met":
            picked = picked[:1]
        for mid in picked:
            if mid not in self.mets:
                continue
            if op["destructive"]:
                # "If True then all associated reactions are removed from the Model."
                for rid in [rid for rid, r in self.rxns.items() if mid in r["mets"]]:
                    self._remove_rxn(rid)
            else:
                for r in self.rxns.values():
                    r["mets"].pop(mid, None)
            self._remove_met_entry(mid)

    def op_add_boundary(self, op, o, out):
        mid = self.pick(o["m"], op["met"])
        typ = op["type"]
        lb, ub = op["b"] if op["b"] is not None else (-1000.0, 1000.0)
        if typ == "exchange" and out.startswith("raised"):
            # the external-compartment heuristic is not modelled: a refusal must simply change nothing
            raise Expect(("ValueError", "RuntimeError", "IndexError"))
        rid = RID[op["rid"]] if op["rid"] is not None else None
        if typ in PREFIX:
            if rid is None:
                rid = f"{PREFIX[typ]}_{mid}"
            if typ == "demand":
                lb = 0
            sbo = SBO[typ]
        else:
            if rid is None:
                raise Expect("ValueError")  # "Custom types of boundary reactions require a custom identifier."
            sbo = "SBO:0000632"  # passed by the driver
        if rid in self.rxns:
            raise Expect("ValueError")  # "Boundary reaction ... already exists."
        if self.bad_rid(rid):
            raise Expect(("ValueError", "KeyError"))
        if lb > ub:
            raise Expect("ValueError")
        self.rxns[rid] = {"mets": {mid: -1}, "lb": lb, "ub": ub, "rule": None, "name": f"{self.mets[mid]['name']} {typ}",
                          "subsystem": "", "notes": {}, "annotation": {"sbo": sbo}, "uid": _uid()}

    def op_rxn_add_mets(self, op, o, out):
        rid = self.pick(o["r"], op["rxn"])
        r = self.rxns[rid]
        # identifier keys must name a metabolite of the model (KeyError otherwise, nothing changes)
        for idx, c, kind in op["mets"]:
            if kind == "id" and MID[idx] not in self.mets:
                raise Expect("KeyError")
        for idx, c, kind in op["mets"]:
            mid = MID[idx]
            c = -c if op["subtract"] else c
            if mid not in self.mets:
                self.mets[mid] = new_met(mid)
            if mid in r["mets"] and op["combine"]:
                r["mets"][mid] = r["mets"][mid] + c
            else:
                r["mets"][mid] = c
        # "If the final coefficient for a metabolite is 0 then it is removed from the reaction."
        for mid in [m for m, c in r["mets"].items() if c == 0]:
            del r["mets"][mid]

    def op_bounds_seq(self, op, o, out):
        r = self.rxns[self.pick(o["r"], op["rxn"])]
        attr = op["first"]
        for v in op["vals"]:
            if attr == "lb" and v <= r["ub"]:
                r["lb"] = v
            elif attr == "ub" and v >= r["lb"]:
                r["ub"] = v
            attr = "ub" if attr == "lb" else "lb"

    def op_bounds(self, op, o, out):
        r = self.rxns[self.pick(o["r"], op["rxn"])]
        kind = op["kind"]
        if kind == "lb":
            lb, ub = op["raw"][0], r["ub"]
        elif kind == "ub":
            lb, ub = r["lb"], op["raw"][1]
        elif kind == "both":
            lb, ub = tuple(op["raw"]) if op["rxn"] % 3 == 0 else tuple(op["b"])
        else:
            lb, ub = 0, 0
        if lb > ub:
            raise Expect("ValueError")
        r["lb"], r["ub"] = lb, ub

    def op_rule(self, op, o, out):
        r = self.rxns[self.pick(o["r"], op["rxn"])]
        r["rule"] = op["tree"]
        self._ensure_genes(op["tree"])  # genes that leave a rule stay in the model

    def _nonfunctional(self):
        return {g for g, d in self.genes.items() if not d["functional"]}

    def _knock_out_gene(self, gid):
        self.genes[gid]["functional"] = False
        off = self._nonfunctional()
        for r in self.rxns.values():
            if gid in gprtree.leaves(r["rule"]) and not gprtree.evaluate(r["rule"], off):
                r["lb"], r["ub"] = 0, 0

    def op_gene_state(self, op, o, out):
        gid = self.pick(o["g"], op["gene"])
        if op["how"] == "knock_out":
            self._knock_out_gene(gid)
        else:
            self.genes[gid]["functional"] = op["how"] == "on"

    def op_knock_out_model_genes(self, op, o, out):
        for k in op["genes"]:
            self._knock_out_gene(self.pick(o["g"], k))

    def op_remove_genes(self, op, o, out):
        absent = set(dict.fromkeys(self.pick(o["g"], k) for k in op["genes"]))
        for rid in list(self.rxns):
            r = self.rxns[rid]
            if r["rule"] is None or not (gprtree.leaves(r["rule"]) & absent):
                continue
            new = gprtree.restrict(r["rule"], absent)
            if new is False:
                if op["remove_reactions"]:
                    self._remove_rxn(rid)  # "remove reactions associated with genes in gene_list" that cannot proceed
                    continue
                new = None  # the rule is simplified with the genes inactivated: nothing remains
            r["rule"] = new
        for gid in absent:
            del self.genes[gid]
            self._drop_member("g", gid)

    def op_rename_genes(self, op, o, out):
        d = {}
        for k, new in op["pairs"]:
            old = self.pick(o["g"], k)
            if old not in d and GID[new] not in d and old not in d.values():  # no chains (documented as undefined); two genes may share a target
                d[old] = GID[new]

        def ren(t, a, b):
            if t is None:
                return None
            if isinstance(t, str):
                return b if t == a else t
            return [t[0], *[ren(x, a, b) for x in t[1:]]]

        for old, new in d.items():
            if old not in self.genes or old == new:
                continue
            for r in self.rxns.values():
                r["rule"] = ren(r["rule"], old, new)
            if new in self.genes:
                # merged into the existing gene: the old gene leaves the model, the surviving gene takes its place in groups
                del self.genes[old]
                self._rename_member("g", old, new)
            else:
                self.genes = {(new if g == old else g): v for g, v in self.genes.items()}
                self._rename_member("g", old, new)

    def op_rename_rxn(self, op, o, out):
        old, new = self.pick(o["r"], op["rxn"]), RID[op["new"]]
        if new == old:
            return
        if new in self.rxns:
            raise Expect("ValueError")
        if self.bad_rid(new):
            raise Expect(("ValueError", "KeyError", "ContainerAlreadyContains"))
        self.rxns = {(new if r == old else r): v for r, v in self.rxns.items()}
        if old in self.objective:
            self.objective[new] = self.objective.pop(old)
        self._rename_member("r", old, new)

    def op_rename_met(self, op, o, out):
        old, new = self.pick(o["m"], op["met"]), MID[op["new"]]
        if new == old:
            return
        if new in self.mets:
            raise Expect("ValueError")
        if any(c.isspace() for c in new):
            raise Expect("ValueError")
        self.mets = {(new if m == old else m): v for m, v in self.mets.items()}
        for r in self.rxns.values():
            if old in r["mets"]:
                r["mets"] = {(new if m == old else m): c for m, c in r["mets"].items()}
        self._rename_member("m", old, new)

    def op_objective(self, op, o, out):
        rx = list(dict.fromkeys(self.pick(o["r"], k) for k in op["rxns"]))
        kind = op["kind"]
        if kind in ("rxn", "id", "index"):
            self.objective = {rx[0]: 1.0}
        elif kind == "list":
            self.objective = {r: 1.0 for r in rx}
        elif kind == "dict":
            self.objective = {r: float(c) for r, c in zip(rx, op["coefs"]) if c != 0}
        elif kind == "expr":
            terms = {r: float(c) for r, c in zip(rx, op["coefs"]) if c != 0}
            if terms:
                self.objective = terms
        elif kind.startswith("obj_"):
            if kind.startswith("obj_new"):
                self.objective = {r: float(c) for r, c in zip(rx, op["coefs"]) if c != 0}
            self.direction = kind[-3:]  # "an optlang Objective": taken as it is, direction included
        else:
            c = op["coefs"][0]
            if c == 0:
                self.objective.pop(rx[0], None)
            else:
                self.objective[rx[0]] = float(c)

    def op_direction(self, op, o, out):
        v = op["value"].lower()
        if v.startswith("max"):
            self.direction = "max"
        elif v.startswith("min"):
            self.direction = "min"
        else:
            raise Expect("ValueError")

    def op_imul(self, op, o, out):
        r = self.rxns[self.pick(o["r"], op["rxn"])]
        k = op["factor"]
        r["mets"] = {m: c * k for m, c in r["mets"].items()}
        if k < 0:  # "the reaction is reversed and the bounds are swapped"
            r["lb"], r["ub"] = -r["ub"], -r["lb"]

    def op_iadd(self, op, o, out):
        rid, oid = self.pick(o["r"], op["rxn"]), self.pick(o["r"], op["other"])
        r, other = self.rxns[rid], self.rxns[oid]
        sgn = -1 if op["sub"] else 1
        for mid, c in other["mets"].items():
            r["mets"][mid] = r["mets"].get(mid, 0) + sgn * c
        for mid in [m for m, c in r["mets"].items() if c == 0]:
            del r["mets"][mid]
        if not op["sub"]:
            # "the gene reaction rule will be both rules combined by an and"
            if r["rule"] is not None and other["rule"] is not None:
                r["rule"] = ["and", r["rule"], other["rule"]]
            elif r["rule"] is None and other["rule"] is not None:
                r["rule"] = other["rule"]

    def op_add_group(self, op, o, out):
        gid = f"grp{op['gid']}"
        if gid in self.groups:
            return  # "Groups with identifiers identical to a group already in the model are ignored."
        members = set()
        for kind, k in op["members"]:
            x = self.pick(o[kind], k)
            if x is not None:
                members.add((kind, x))
        self.groups[gid] = {"name": "", "kind": op["kind"], "members": members, "notes": {}, "annotation": {}}

    def op_remove_group(self, op, o, out):
        del self.groups[self.pick(o["grp"], op["grp"])]

    def op_group_members(self, op, o, out):
        g = self.groups[self.pick(o["grp"], op["grp"])]
        for kind, k in op["members"]:
            x = self.pick(o[kind], k)
            if x is None:
                continue
            (g["members"].add if op["add"] else g["members"].discard)((kind, x))

    def op_from_string(self, op, o, out):
        r = self.rxns[self.pick(o["r"], op["rxn"])]
        arrow = op["arrow"]
        if arrow in ("<=>", "<->"):
            r["lb"], r["ub"] = -1000.0, 1000.0
        elif arrow in ("-->", "->"):
            r["lb"], r["ub"] = 0, 1000.0
        else:
            r["lb"], r["ub"] = -1000.0, 0
        mets = {}
        for i, c in op["lhs"]:
            mets[MID[i]] = mets.get(MID[i], 0) - c
        for i, c in op["rhs"]:
            mets[MID[i]] = mets.get(MID[i], 0) + c  # net coefficient of a metabolite that occurs in several terms
        for mid in mets:
            if mid not in self.mets:
                self.mets[mid] = new_met(mid, compartment=None)  # "unknown metabolite created": no compartment given
        r["mets"] = {mid: c for mid, c in mets.items() if c != 0}  # a term "0 a" creates a but leaves no entry

    def op_inplace_meta(self, op, o, out):
        what = op["what"]
        if what == "compartments":
            self.comp_names["c"] = op["val"]
            return
        if op["kind"] == "model":
            target = self.__dict__
        else:
            store = {"r": self.rxns, "m": self.mets, "g": self.genes, "grp": self.groups}[op["kind"]]
            key = {"r": "r", "m": "m", "g": "g", "grp": "grp"}[op["kind"]]
            target = store[self.pick(o[key], op["sel"])]
        if what == "name":
            target["name"] = op["val"]
        elif what == "ann_list":
            lists = [v for v in target["annotation"].values() if isinstance(v, list)]
            if not lists:
                target["annotation"]["listed"] = [op["val"]]
            else:
                lists[0].append(op["val"])
        else:
            target[what][op["key"]] = op["val"]

    def op_tolerance(self, op, o, out):
        self.tolerance = op["value"]

    def op_merge(self, op, o, out):
        # right model: fresh reactions over fresh metabolites, objective = its first reaction
        right_ids = []
        for d in op["rxns"]:
            rid = RID[d["id"]]
            if rid not in right_ids:
                right_ids.append(rid)
        seen = set()
        first = right_ids[0]
        for d in op["rxns"]:
            rid = RID[d["id"]]
            if rid in seen:
                continue  # the right model itself ignored the duplicate
            seen.add(rid)
            target = rid
            if rid in self.rxns and op["prefix"] is not None:
                target = f"{op['prefix']}{rid}"  # "Prefix the reaction identifier in the right that already exist in the left"
            if target in self.rxns:
                continue
            self._add_rxn_spec(d, rid=target)
        if op["objective"] == "right":
            # "setting the objective of the resulting model to that of the corresponding model": the right model's
            # objective object, direction included (the right model maximises)
            self.objective = {first: 1.0}
            self.direction = "max"
        elif op["objective"] == "sum":
            self.objective[first] = self.objective.get(first, 0.0) + 1.0
            if self.objective[first] == 0:
                del self.objective[first]
        if not (op["inplace"]):
            self.id = f"{self.id}_right"
            self.graveyard = []  # the driver continues on the new model; removed objects stay with the old one

    # content-neutral operations
    def _noop(self, op, o, out):
        return None

    def op_copy(self, op, o, out):
        self.graveyard = []  # the driver continues on the copy; removed objects belong to the original's history

    def op_prune(self, op, o, out):
        # "Remove metabolites not involved in any reactions" / "Remove reactions with no assigned metabolites"; the result is
        # a new model, so objects removed earlier belong to the argument's history
        if op["what"] == "mets":
            for mid in [m for m in self.mets if not any(m in r["mets"] for r in self.rxns.values())]:
                self._remove_met_entry(mid)
        else:
            for rid in [rid for rid, r in self.rxns.items() if not r["mets"]]:
                self._remove_rxn(rid)
        self.graveyard = []

    def op_add_var(self, op, o, out):
        if not out.startswith("raised"):
            self.user_vars.add(f"uvar{op['name']}")

    def op_remove_cons(self, op, o, out):
        if op["what"] == "var" and not out.startswith("raised"):
            self.user_vars.discard(f"uvar{op['name']}")

    op_solver = op_optimize = op_repair = op_add_cons = op_detached_arith = _noop
