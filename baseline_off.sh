#!/bin/sh
# Runs the repository's pinned baseline with the verification guard OFF (no hooks exist; the guard is unset anyway).
unset COBRAPY_VERIF
cd /repo && exec /venv/bin/python -m pytest -ra -q -p no:cacheprovider --timeout=900 --continue-on-collection-errors "$@"
